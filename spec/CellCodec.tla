----------------------------- MODULE CellCodec -----------------------------
(***************************************************************************)
(* Row-image cell formats of MySQL row-based replication, transcribed from *)
(* the MySQL documentation (DESIGN.md Appendix A.4-A.6), NOT from the Go   *)
(* decoder.  A column is described by its type code and the metadata BYTES *)
(* of its TABLE_MAP entry, exactly as they are on the wire.                *)
(*                                                                         *)
(*   CellLen(t, mb, data, pos)   the number of bytes the cell occupies     *)
(*   CellText(t, mb, raw, uns, tz) canonical text (ASCII codes / bytes)    *)
(*                                                                         *)
(* Texts and byte strings are sequences of 0..255.                         *)
(***************************************************************************)
EXTENDS Bytes

TTiny == 1       TShort == 2      TLong == 3      TFloat == 4     TDouble == 5
TTimestamp == 7  TLongLong == 8   TInt24 == 9     TDate == 10     TTime == 11
TDateTime == 12  TYear == 13      TNewDate == 14  TVarchar == 15  TBit == 16
TTimestamp2 == 17 TDateTime2 == 18 TTime2 == 19   TJson == 245    TNewDecimal == 246
TEnum == 247     TSet == 248      TTinyBlob == 249 TMediumBlob == 250 TLongBlob == 251
TBlob == 252     TVarString == 253 TString == 254 TGeometry == 255

BlobLike == {TJson, TTinyBlob, TMediumBlob, TLongBlob, TBlob, TGeometry}

Dig2Bytes == <<0, 1, 1, 2, 2, 3, 3, 4, 4, 4>>     \* index k+1 for k leftover digits

\* bytes of fractional seconds for fsp digits
FracBytes(fsp) == (fsp + 1) \div 2

\* CHAR/BINARY: maximum byte length folded into the two metadata bytes
StringMax(mb) == (3 - ((mb[1] \div 16) % 4)) * 256 + mb[2]
VarcharMax(mb) == mb[1] + 256 * mb[2]

DecimalLen(p, s) ==
  LET intg == p - s IN
  Dig2Bytes[(intg % 9) + 1] + 4 * (intg \div 9) + 4 * (s \div 9) + Dig2Bytes[(s % 9) + 1]

BitBytes(mb) == (mb[2] * 8 + mb[1] + 7) \div 8

(***************************************************************************)
(* The length rule.  data is the row image, pos the 1-based index of the   *)
(* first byte of the cell.                                                 *)
(***************************************************************************)
PrefixLen(data, pos, n) == LEsmall(Sub(data, pos, pos + n - 1))   \* n <= 3 here; 4-byte lengths below

CellLen(t, mb, data, pos) ==
  CASE t \in {TTiny, TYear} -> 1
    [] t = TShort -> 2
    [] t \in {TInt24, TDate, TNewDate, TTime} -> 3
    [] t \in {TLong, TFloat, TTimestamp} -> 4
    [] t \in {TLongLong, TDouble, TDateTime} -> 8
    [] t \in {TVarchar, TVarString} ->
         IF VarcharMax(mb) > 255 THEN 2 + PrefixLen(data, pos, 2) ELSE 1 + data[pos]
    [] t = TBit -> BitBytes(mb)
    [] t = TTimestamp2 -> 4 + FracBytes(mb[1])
    [] t = TDateTime2 -> 5 + FracBytes(mb[1])
    [] t = TTime2 -> 3 + FracBytes(mb[1])
    [] t = TNewDecimal -> DecimalLen(mb[1], mb[2])
    [] t \in {TEnum, TSet} -> mb[2]
    [] t \in BlobLike ->
         \* 4-byte lengths: the generated payloads are < 2^24, so the top byte is 0
         mb[1] + PrefixLen(data, pos, Min2(mb[1], 3))
    [] t = TString ->
         IF mb[1] \in {TEnum, TSet} THEN mb[2]
         ELSE IF StringMax(mb) > 255 THEN 2 + PrefixLen(data, pos, 2) ELSE 1 + data[pos]

(***************************************************************************)
(* Canonical texts.                                                        *)
(***************************************************************************)
Colon == 58  Dash == 45  Dot == 46  Space == 32

DateText(y, m, d) == PadText(y, 4) \o <<Dash>> \o PadText(m, 2) \o <<Dash>> \o PadText(d, 2)
ClockText(h, m, s) == PadText(h, 2) \o <<Colon>> \o PadText(m, 2) \o <<Colon>> \o PadText(s, 2)

\* fraction: nb bytes big-endian in units of 10^-(2 nb); printed with fsp digits (truncated)
FracText(fb, fsp) ==
  IF fsp = 0 THEN <<>>
  ELSE <<Dot>> \o Take(PadText(BEsmall(fb), 2 * Len(fb)), fsp)

\* civil date from days since 1970-01-01 (proleptic Gregorian; Hinnant's algorithm), days >= -719468
CivilFromDays(z0) ==
  LET z   == z0 + 719468
      era == z \div 146097
      doe == z - era * 146097
      yoe == (doe - doe \div 1460 + doe \div 36524 - doe \div 146096) \div 365
      doy == doe - (365 * yoe + yoe \div 4 - yoe \div 100)
      mp  == (5 * doy + 2) \div 153
      d   == doy - (153 * mp + 2) \div 5 + 1
      m   == IF mp < 10 THEN mp + 3 ELSE mp - 9
      y   == yoe + era * 400 + (IF m <= 2 THEN 1 ELSE 0)
  IN [y |-> y, m |-> m, d |-> d]

\* seconds since the epoch (LS digits) rendered at a zone offset of tz seconds; 0 is the zero timestamp
InstantText(secDigits, tz) ==
  IF Norm(secDigits) = <<0>> THEN DateText(0, 0, 0) \o <<Space>> \o ClockText(0, 0, 0)
  ELSE LET dm   == DivMod(secDigits, 86400)
           r0   == dm.r + tz
           days == SmallOf(dm.q) + (IF r0 < 0 THEN -1 ELSE IF r0 >= 86400 THEN 1 ELSE 0)
           r    == IF r0 < 0 THEN r0 + 86400 ELSE IF r0 >= 86400 THEN r0 - 86400 ELSE r0
           c    == CivilFromDays(days)
       IN DateText(c.y, c.m, c.d) \o <<Space>> \o ClockText(r \div 3600, (r \div 60) % 60, r % 60)

\* old TIME: 3 bytes LE two's complement of +/- HHMMSS as a decimal number
TimeOldText(raw) ==
  LET v   == LEsmall(raw)
      neg == v >= 8388608
      mag == IF neg THEN 16777216 - v ELSE v
  IN (IF neg THEN <<Dash>> ELSE <<>>) \o ClockText(mag \div 10000, (mag \div 100) % 100, mag % 100)

\* old DATETIME: 8 bytes LE, YYYYMMDDHHMMSS as a number
DateTimeOldText(raw) ==
  LET dm  == DivMod(LEDigits(raw), 1000000)
      ymd == SmallOf(dm.q)
      hms == dm.r
  IN DateText(ymd \div 10000, (ymd \div 100) % 100, ymd % 100) \o <<Space>> \o
     ClockText(hms \div 10000, (hms \div 100) % 100, hms % 100)

\* DATETIME2: 5 bytes BE: sign(1) yearmonth(17) day(5) hour(5) minute(6) second(6), then fraction
DateTime2Text(raw, fsp) ==
  LET bits == BitsBE(Sub(raw, 1, 5))
      ym   == BitsVal(Sub(bits, 2, 18))
  IN DateText(ym \div 13, ym % 13, BitsVal(Sub(bits, 19, 23))) \o <<Space>> \o
     ClockText(BitsVal(Sub(bits, 24, 28)), BitsVal(Sub(bits, 29, 34)), BitsVal(Sub(bits, 35, 40))) \o
     FracText(Sub(raw, 6, Len(raw)), fsp)

\* TIME2: (3 + nb) bytes BE, one two's complement number offset by 2^(bits-1):
\* sign(1) unused(1) hour(10) minute(6) second(6) fraction(8 nb)
Time2Text(raw, fsp) ==
  LET nonneg == raw[1] >= 128
      magLE  == IF nonneg THEN Rev(raw) ELSE NegLE(Rev(raw))
      mag    == Rev(magLE)                      \* big-endian magnitude, top bit to be ignored
      bits   == BitsBE(Sub(mag, 1, 3))
  IN (IF nonneg THEN <<>> ELSE <<Dash>>) \o
     ClockText(BitsVal(Sub(bits, 3, 12)), BitsVal(Sub(bits, 13, 18)), BitsVal(Sub(bits, 19, 24))) \o
     FracText(Sub(mag, 4, Len(mag)), fsp)

(***************************************************************************)
(* NEWDECIMAL(p, s), A.6.                                                  *)
(***************************************************************************)
\* value of a big-endian group of at most 4 bytes holding at most 9 decimal digits
GroupVal(bs) == IF Len(bs) = 4 THEN bs[1] * 16777216 + BEsmall(Sub(bs, 2, 4)) ELSE BEsmall(bs)

RECURSIVE GroupsText(_, _)
\* bs: bytes of k full 9-digit groups
GroupsText(bs, k) == IF k = 0 THEN <<>> ELSE PadText(GroupVal(Sub(bs, 1, 4)), 9) \o GroupsText(Drop(bs, 4), k - 1)

RECURSIVE StripZeros(_)
StripZeros(t) == IF t = <<>> THEN <<48>> ELSE IF Head(t) = 48 /\ Len(t) > 1 THEN StripZeros(Tail(t)) ELSE t

DecimalText(raw, p, s) ==
  LET neg   == raw[1] < 128
      inv   == IF neg THEN [i \in 1..Len(raw) |-> 255 - raw[i]] ELSE raw
      d     == [i \in 1..Len(inv) |-> IF i = 1 THEN (IF inv[1] >= 128 THEN inv[1] - 128 ELSE inv[1] + 128) ELSE inv[i]]
      intg  == p - s
      lead  == intg % 9
      lb    == Dig2Bytes[lead + 1]
      ig    == intg \div 9
      fg    == s \div 9
      trail == s % 9
      tb    == Dig2Bytes[trail + 1]
      leadT == IF lead = 0 THEN <<>> ELSE PadText(GroupVal(Sub(d, 1, lb)), lead)
      intT  == leadT \o GroupsText(Sub(d, lb + 1, lb + 4 * ig), ig)
      fracT == GroupsText(Sub(d, lb + 4 * ig + 1, lb + 4 * ig + 4 * fg), fg) \o
               (IF trail = 0 THEN <<>> ELSE PadText(GroupVal(Sub(d, lb + 4 * ig + 4 * fg + 1, lb + 4 * ig + 4 * fg + tb)), trail))
  IN (IF neg THEN <<Dash>> ELSE <<>>) \o StripZeros(intT) \o (IF s = 0 THEN <<>> ELSE <<Dot>> \o fracT)

(***************************************************************************)
(* The value text of a cell.  raw is exactly the CellLen bytes of the cell.*)
(***************************************************************************)
CellText(t, mb, raw, uns, tz) ==
  CASE t \in {TTiny, TShort, TInt24, TLong, TLongLong} -> IntTextLE(raw, uns)
    [] t = TYear -> IF raw[1] = 0 THEN <<48, 48, 48, 48>> ELSE SmallText(1900 + raw[1])
    [] t \in {TDate, TNewDate} ->
         LET v == LEsmall(raw) IN DateText(v \div 512, (v \div 32) % 16, v % 32)
    [] t = TTime -> TimeOldText(raw)
    [] t = TDateTime -> DateTimeOldText(raw)
    [] t = TTimestamp -> InstantText(LEDigits(raw), tz)
    [] t = TTimestamp2 -> InstantText(BEDigits(Sub(raw, 1, 4)), tz) \o FracText(Sub(raw, 5, Len(raw)), mb[1])
    [] t = TDateTime2 -> DateTime2Text(raw, mb[1])
    [] t = TTime2 -> Time2Text(raw, mb[1])
    [] t = TNewDecimal -> DecimalText(raw, mb[1], mb[2])
    [] t \in {TVarchar, TVarString} -> Drop(raw, IF VarcharMax(mb) > 255 THEN 2 ELSE 1)
    [] t = TBit -> raw
    [] t = TEnum -> DigitsText(LEDigits(raw))
    [] t \in (BlobLike \ {TJson}) -> Drop(raw, mb[1])
    [] t = TString ->
         IF mb[1] \in {TEnum, TSet} THEN DigitsText(LEDigits(raw))
         ELSE Drop(raw, IF StringMax(mb) > 255 THEN 2 ELSE 1)

\* plain exponent-free decimal: -?[0-9]+(\.[0-9]+)?
IsPlainDecimal(t) ==
  LET u == IF t # <<>> /\ t[1] = Dash THEN Tail(t) ELSE t
      dots == {i \in 1..Len(u) : u[i] = Dot}
  IN /\ u # <<>>
     /\ Cardinality(dots) <= 1
     /\ \A i \in 1..Len(u) : IsDigit(u[i]) \/ u[i] = Dot
     /\ \A i \in dots : i > 1 /\ i < Len(u)

HasText(t) == t \notin {TFloat, TDouble, TJson, TSet}

(***************************************************************************)
(* Does an observed value match the cell?  obs = [data, fbits]; for FLOAT  *)
(* and DOUBLE the text must be plain decimal and parse back (fbits, logged *)
(* by the harness with strconv.ParseFloat) to the stored bits.             *)
(***************************************************************************)
CellMatches(t, mb, raw, uns, tz, obs) ==
  IF t \in {TFloat, TDouble} THEN IsPlainDecimal(obs.data) /\ obs.fbits = raw
  ELSE IF HasText(t) THEN obs.data = CellText(t, mb, raw, uns, tz)
  ELSE TRUE
=============================================================================
