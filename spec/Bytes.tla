------------------------------- MODULE Bytes -------------------------------
(***************************************************************************)
(* Byte strings and arbitrary-precision naturals for the wire-format part  *)
(* of the specification.  TLC integers are 32-bit, so every number that    *)
(* can reach 2^31 is a sequence of decimal digits (least significant       *)
(* first, "LS digits") and texts are sequences of ASCII codes.             *)
(***************************************************************************)
EXTENDS Integers, Sequences, FiniteSets, TLC

Byte == 0..255

Max2(a, b) == IF a >= b THEN a ELSE b
Min2(a, b) == IF a <= b THEN a ELSE b

RECURSIVE Pow(_, _)
Pow(b, e) == IF e = 0 THEN 1 ELSE b * Pow(b, e - 1)

Rev(s) == [i \in 1..Len(s) |-> s[Len(s) + 1 - i]]

\* Flatten a sequence of sequences.
RECURSIVE Concat(_)
Concat(ss) == IF ss = <<>> THEN <<>> ELSE Head(ss) \o Concat(Tail(ss))

Sub(s, from, to) == IF to < from THEN <<>> ELSE SubSeq(s, from, to)   \* 1-based inclusive
Drop(s, n) == Sub(s, n + 1, Len(s))
Take(s, n) == Sub(s, 1, Min2(n, Len(s)))

(***************************************************************************)
(* Small (int-sized) conversions.                                          *)
(***************************************************************************)
\* little-endian / big-endian value of at most 3 bytes (fits an int)
RECURSIVE LEsmall(_)
LEsmall(bs) == IF bs = <<>> THEN 0 ELSE Head(bs) + 256 * LEsmall(Tail(bs))
BEsmall(bs) == LEsmall(Rev(bs))

\* LS decimal digits of a small natural ("0" -> <<0>>)
RECURSIVE DigitsOfSmall(_)
DigitsOfSmall(n) == IF n < 10 THEN <<n>> ELSE <<n % 10>> \o DigitsOfSmall(n \div 10)

(***************************************************************************)
(* LS-digit naturals.                                                      *)
(***************************************************************************)
RECURSIVE MulAdd(_, _, _)
\* ds * m + c, for LS digits ds, 0 <= m <= 256*256, 0 <= c
MulAdd(ds, m, c) ==
  IF ds = <<>> THEN (IF c = 0 THEN <<>> ELSE DigitsOfSmall(c))
  ELSE LET v == Head(ds) * m + c IN <<v % 10>> \o MulAdd(Tail(ds), m, v \div 10)

\* strip most-significant zeros of an LS digit list; zero is <<0>>
RECURSIVE Norm(_)
Norm(ds) == IF Len(ds) <= 1 THEN (IF ds = <<>> THEN <<0>> ELSE ds)
            ELSE IF ds[Len(ds)] = 0 THEN Norm(Sub(ds, 1, Len(ds) - 1)) ELSE ds

\* big-endian byte string -> LS digits
RECURSIVE BEDigitsAcc(_, _)
BEDigitsAcc(bs, acc) == IF bs = <<>> THEN acc ELSE BEDigitsAcc(Tail(bs), MulAdd(acc, 256, Head(bs)))
BEDigits(bs) == Norm(BEDigitsAcc(bs, <<>>))
LEDigits(bs) == BEDigits(Rev(bs))

\* text (ASCII codes, most significant first) of LS digits
DigitsText(ds) == LET n == Norm(ds) IN [i \in 1..Len(n) |-> 48 + n[Len(n) + 1 - i]]
SmallText(n) == DigitsText(DigitsOfSmall(n))

\* zero-padded text of a small natural, at least w characters
PadText(n, w) == LET t == SmallText(n) IN
                 IF Len(t) >= w THEN t ELSE [i \in 1..(w - Len(t)) |-> 48] \o t

\* two's complement negation of a byte string (any endianness handled by caller: this is LE)
RECURSIVE NegLEAcc(_, _)
NegLEAcc(bs, carry) ==
  IF bs = <<>> THEN <<>>
  ELSE LET v == (255 - Head(bs)) + carry IN <<v % 256>> \o NegLEAcc(Tail(bs), v \div 256)
NegLE(bs) == NegLEAcc(bs, 1)

IsNegLE(bs) == bs[Len(bs)] >= 128

\* decimal text of a little-endian two's complement (signed) or unsigned integer
IntTextLE(bs, unsigned) ==
  IF unsigned \/ ~IsNegLE(bs) THEN DigitsText(LEDigits(bs))
  ELSE <<45>> \o DigitsText(LEDigits(NegLE(bs)))

(***************************************************************************)
(* Long division of an LS-digit natural by a small divisor (d < 10^8).     *)
(* Returns [q |-> LS digits, r |-> int].                                    *)
(***************************************************************************)
RECURSIVE DivAcc(_, _, _, _)
\* ms: remaining digits most-significant first
DivAcc(ms, d, r, q) ==
  IF ms = <<>> THEN [q |-> Norm(Rev(q)), r |-> r]
  ELSE LET v == r * 10 + Head(ms) IN DivAcc(Tail(ms), d, v % d, Append(q, v \div d))
DivMod(ds, d) == DivAcc(Rev(ds), d, 0, <<>>)

\* value of LS digits as an int (caller guarantees < 2^31)
RECURSIVE SmallOf(_)
SmallOf(ds) == IF ds = <<>> THEN 0 ELSE Head(ds) + 10 * SmallOf(Tail(ds))

(***************************************************************************)
(* Bits.                                                                   *)
(***************************************************************************)
ByteBits(b) == [i \in 1..8 |-> (b \div Pow(2, 8 - i)) % 2]          \* most significant first
BitsBE(bs) == Concat([i \in 1..Len(bs) |-> ByteBits(bs[i])])
RECURSIVE BitsVal(_)
BitsVal(bits) == IF bits = <<>> THEN 0 ELSE BitsVal(Sub(bits, 1, Len(bits) - 1)) * 2 + bits[Len(bits)]
\* bit i (0-based) of a bitmap stored LS bit first inside each byte
BitmapBit(bs, i) == (bs[(i \div 8) + 1] \div Pow(2, i % 8)) % 2 = 1

IsPrefixOf(a, b) == Len(a) <= Len(b) /\ Sub(b, 1, Len(a)) = a

\* ASCII helpers
Lower(c) == IF c >= 65 /\ c <= 90 THEN c + 32 ELSE c
LowerSeq(s) == [i \in 1..Len(s) |-> Lower(s[i])]
IsDigit(c) == c >= 48 /\ c <= 57
=============================================================================
