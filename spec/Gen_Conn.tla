------------------------------ MODULE Gen_Conn ------------------------------
(***************************************************************************)
(* Schedule generator: behaviours of MC_Conn exported as scripts.  `hist`  *)
(* records the action taken at every step (name and the parameters TLC     *)
(* chose: reader attempt, packet class / read outcome, connect budget,     *)
(* whether Error() had a channel to wait on).  TLC runs in simulation mode *)
(* (-simulate num=N -depth D); each behaviour is printed once as JSON when *)
(* it reaches its end (nothing enabled) or the depth bound.  The harness   *)
(* replays each script on the real Stream()/Error() with the library's     *)
(* hook points as scheduler gates: a goroutine arriving at a hook point    *)
(* blocks until the script lets it take its next step, so the real code    *)
(* follows the interleaving TLC chose (harness/root/vf_sched.go).          *)
(***************************************************************************)
EXTENDS MC_Conn, Json

CONSTANT Depth

VARIABLES hist, plan
gvars == <<vars, hist, plan>>

H(e) == hist' = Append(hist, e) /\ UNCHANGED plan

\* what ReaderRead(a) did, read off the post-state: the packet class handed on, or the reason it left
ReadOutcome(a) == IF rpc'[a] = "handoff" THEN held'[a] ELSE terminal'[a]

(***************************************************************************)
(* A uniformly random walk over Next would spend most behaviours on        *)
(* connection failures and early cancels.  The environment's choices are   *)
(* therefore drawn up front (TLC picks the initial state uniformly): how   *)
(* the connection attempt ends, and at which step index the caller cancels *)
(* and the network breaks (0 = never); the walk then explores the          *)
(* interleavings of the library's steps under that plan.                   *)
(***************************************************************************)
Plans == [conn : 1..10, cancelAt : 0..44, breakAt : 0..60]      \* cancelAt < 4, breakAt < 6 or > 40: never

GInit == Init /\ hist = <<>> /\ plan \in Plans

CancelDue == plan.cancelAt >= 4 /\ Len(hist) = plan.cancelAt /\ att > 0 /\ ~ctxDone[att]
BreakDue == plan.breakAt \in 6..40 /\ Len(hist) = plan.breakAt /\ att > 0 /\ sock[att] = "open"

GStep ==
  IF CancelDue THEN Cancel /\ H(<<"Cancel">>)
  ELSE IF BreakDue THEN Break /\ H(<<"Break">>)
  ELSE
  \/ Call /\ H(<<"Call">>)
  \/ plan.conn # 1 /\ ConnectOk /\ H(<<"ConnectOk">>)
  \/ plan.conn = 1 /\ ConnectFail /\ H(<<"ConnectFail">>)
  \/ plan.conn # 2 /\ SendSetOk /\ H(<<"SendSetOk">>)
  \/ plan.conn = 2 /\ SendSetFail /\ H(<<"SendSetFail">>)
  \/ plan.conn # 3 /\ SendDumpOk /\ H(<<"SendDumpOk">>)
  \/ plan.conn = 3 /\ SendDumpFail /\ H(<<"SendDumpFail">>)
  \/ Spawn /\ H(<<"Spawn">>)
  \/ ParserTakesEvent /\ H(<<"ParserTakesEvent", held[att]>>)
  \/ ParserSeesClosed /\ H(<<"ParserSeesClosed">>)
  \/ ParserSeesCtx /\ H(<<"ParserSeesCtx">>)
  \/ HandlerOk /\ H(<<"HandlerOk">>)
  \/ HandlerErr /\ H(<<"HandlerErr">>)
  \/ CloseDone /\ H(<<"CloseDone">>)
  \/ CloseSocket /\ H(<<"CloseSocket">>)
  \/ Return /\ H(<<"Return", retRes>>)
  \/ \E a \in Att :
       \/ ReaderRead(a) /\ H(<<"ReaderRead", ReadOutcome(a), ToString(a)>>)
       \/ ReaderSeesCtx(a) /\ H(<<"ReaderSeesCtx", ToString(a)>>)
       \/ ReaderSeesDone(a) /\ H(<<"ReaderSeesDone", ToString(a)>>)
       \/ ReaderPublish(a) /\ H(<<"ReaderPublish", ToString(a)>>)
       \/ ReaderCloseErr(a) /\ H(<<"ReaderCloseErr", ToString(a)>>)
       \/ ReaderCloseEv(a) /\ H(<<"ReaderCloseEv", ToString(a)>>)
  \/ ErrorCall /\ H(<<"ErrorCall", IF sErrChan = 0 THEN "immediate" ELSE "waits">>)
  \/ ErrorRecv /\ H(<<"ErrorRecv">>)

\* the end of a behaviour is marked once, so that it can be printed exactly once
Ended == hist # <<>> /\ hist[Len(hist)] = <<"end">>
GEnd == ~Ended /\ ~ENABLED GStep /\ hist # <<>> /\ H(<<"end">>) /\ UNCHANGED vars

GNext == (~Ended /\ GStep) \/ GEnd
GSpec == GInit /\ [][GNext]_gvars

\* the model's own expectation of what the caller observes (compared with the real run: DRIFT.schedule)
Emit ==
  (Ended \/ TLCGet("level") >= Depth) =>
     PrintT(ToJson([steps |-> hist, result |-> IF att > 0 THEN result[att] ELSE "none", eres |-> eres,
                    rexit |-> IF att > 0 THEN rpc[att] ELSE "none", complete |-> Ended]))
=============================================================================
