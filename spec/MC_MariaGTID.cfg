SPECIFICATION Spec
CONSTANTS
  MDefects = {}
  D = 3
  S = 2
  Q = 3
  MaxAdds = 4
INVARIANTS OnePositionPerDomain ReceiverUnchanged KeepsGreatest ContainmentWithinDomain AddMonotone
CHECK_DEADLOCK FALSE
