----------------------------- MODULE Cover_Conn -----------------------------
(***************************************************************************)
(* Transition coverage of MC_Conn on the real code: TLC explores the state *)
(* graph breadth first with the history variable left out of the state's   *)
(* identity (VIEW), so every state is reached once, by a shortest path;    *)
(* the action constraint prints, for EVERY transition of the graph, the    *)
(* path to its source state followed by the transition itself.  The harness*)
(* replays each printed script with the hook points as scheduler gates     *)
(* (like Gen_Conn's) and lets the attempt run free afterwards, so every    *)
(* transition of the model is taken at least once by the real goroutines   *)
(* (where the real code can follow the path at all).                       *)
(***************************************************************************)
EXTENDS MC_Conn, Json

VARIABLE hist
cvars == <<vars, hist>>

H(e) == hist' = Append(hist, e)
ReadOutcome(a) == IF rpc'[a] = "handoff" THEN held'[a] ELSE terminal'[a]

CInit == Init /\ hist = <<>>

CNext ==
  \/ Call /\ H(<<"Call">>)
  \/ ConnectOk /\ H(<<"ConnectOk">>)
  \/ ConnectFail /\ H(<<"ConnectFail">>)
  \/ SendSetOk /\ H(<<"SendSetOk">>)
  \/ SendSetFail /\ H(<<"SendSetFail">>)
  \/ SendDumpOk /\ H(<<"SendDumpOk">>)
  \/ SendDumpFail /\ H(<<"SendDumpFail">>)
  \/ Spawn /\ H(<<"Spawn">>)
  \/ ParserTakesEvent /\ H(<<"ParserTakesEvent", held[att]>>)
  \/ ParserSeesClosed /\ H(<<"ParserSeesClosed">>)
  \/ ParserSeesCtx /\ H(<<"ParserSeesCtx">>)
  \/ HandlerOk /\ H(<<"HandlerOk">>)
  \/ HandlerErr /\ H(<<"HandlerErr">>)
  \/ CloseDone /\ H(<<"CloseDone">>)
  \/ CloseSocket /\ H(<<"CloseSocket">>)
  \/ Return /\ H(<<"Return", retRes>>)
  \/ \E a \in Att :
       \/ ReaderRead(a) /\ H(<<"ReaderRead", ReadOutcome(a)>>)
       \/ ReaderSeesCtx(a) /\ H(<<"ReaderSeesCtx">>)
       \/ ReaderSeesDone(a) /\ H(<<"ReaderSeesDone">>)
       \/ ReaderPublish(a) /\ H(<<"ReaderPublish">>)
       \/ ReaderCloseErr(a) /\ H(<<"ReaderCloseErr">>)
       \/ ReaderCloseEv(a) /\ H(<<"ReaderCloseEv">>)
  \/ Cancel /\ H(<<"Cancel">>)
  \/ Break /\ H(<<"Break">>)
  \/ ErrorCall /\ H(<<"ErrorCall", IF sErrChan = 0 THEN "immediate" ELSE "waits">>)
  \/ ErrorRecv /\ H(<<"ErrorRecv">>)

CSpec == CInit /\ [][CNext]_cvars

StateView == vars        \* hist is not part of a state's identity

\* one line per transition: the path to the source state plus the transition
EdgeEmit == PrintT(ToJson([steps |-> hist', result |-> "none", eres |-> "none", rexit |-> "none", complete |-> FALSE]))
=============================================================================
