----------------------------- MODULE Cover_Conn -----------------------------
(***************************************************************************)
(* Transition coverage of MC_Conn on the real code: TLC explores the state *)
(* graph breadth first with the history variable left out of the state's   *)
(* identity (VIEW), so every state is reached once, by a shortest path;    *)
(* the action constraint prints, for EVERY transition of the graph, the    *)
(* path to its source state followed by the transition itself.  The harness*)
(* replays each printed script with the hook points as scheduler gates     *)
(* (like Gen_Conn's) and lets the attempt run free afterwards, so every    *)
(* transition of the model is taken at least once by the real goroutines   *)
(* (where the real code can follow the path at all).                       *)
(***************************************************************************)
EXTENDS MC_Conn, Json

CONSTANT CrossOnly     \* TRUE: print only the transitions in which the reader of an EARLIER attempt takes a step

VARIABLE hist
cvars == <<vars, hist>>

H(e) == hist' = Append(hist, e)
ReadOutcome(a) == IF rpc'[a] = "handoff" THEN held'[a] ELSE terminal'[a]

CInit == Init /\ hist = <<>>

CNext ==
  \/ Call /\ H(<<"Call">>)
  \/ ConnectOk /\ H(<<"ConnectOk">>)
  \/ ConnectFail /\ H(<<"ConnectFail">>)
  \/ SendSetOk /\ H(<<"SendSetOk">>)
  \/ SendSetFail /\ H(<<"SendSetFail">>)
  \/ SendDumpOk /\ H(<<"SendDumpOk">>)
  \/ SendDumpFail /\ H(<<"SendDumpFail">>)
  \/ Spawn /\ H(<<"Spawn">>)
  \/ ParserTakesEvent /\ H(<<"ParserTakesEvent", held[att]>>)
  \/ ParserSeesClosed /\ H(<<"ParserSeesClosed">>)
  \/ ParserSeesCtx /\ H(<<"ParserSeesCtx">>)
  \/ HandlerOk /\ H(<<"HandlerOk">>)
  \/ HandlerErr /\ H(<<"HandlerErr">>)
  \/ CloseDone /\ H(<<"CloseDone">>)
  \/ CloseSocket /\ H(<<"CloseSocket">>)
  \/ Return /\ H(<<"Return", retRes>>)
  \/ \E a \in Att :
       \/ ReaderRead(a) /\ H(<<"ReaderRead", ReadOutcome(a), ToString(a)>>)
       \/ ReaderSeesCtx(a) /\ H(<<"ReaderSeesCtx", ToString(a)>>)
       \/ ReaderSeesDone(a) /\ H(<<"ReaderSeesDone", ToString(a)>>)
       \/ ReaderPublish(a) /\ H(<<"ReaderPublish", ToString(a)>>)
       \/ ReaderCloseErr(a) /\ H(<<"ReaderCloseErr", ToString(a)>>)
       \/ ReaderCloseEv(a) /\ H(<<"ReaderCloseEv", ToString(a)>>)
  \/ Cancel /\ H(<<"Cancel">>)
  \/ Break /\ H(<<"Break">>)
  \/ ErrorCall /\ H(<<"ErrorCall", IF sErrChan = 0 THEN "immediate" ELSE "waits">>)
  \/ ErrorRecv /\ H(<<"ErrorRecv">>)

CSpec == CInit /\ [][CNext]_cvars

StateView == vars        \* hist is not part of a state's identity
\* a coarser identity for the two-attempt graph: one representative (reached by a shortest path) per combination of where
\* the caller, both readers, the handler and Error() stand and of what has been cancelled, closed or broken
CrossView == <<att, spc, rpc, hpc, epc, sock, ctxDone, doneClosed>>

\* one line per transition: the path to the source state plus the transition
ReaderSteps == {"ReaderRead", "ReaderSeesCtx", "ReaderSeesDone", "ReaderPublish", "ReaderCloseErr", "ReaderCloseEv"}
LastStep == hist'[Len(hist')]
IsCross == LastStep[1] \in ReaderSteps /\ LastStep[Len(LastStep)] # ToString(att')
EdgeEmit == (~CrossOnly \/ IsCross) => PrintT(ToJson([steps |-> hist', result |-> "none", eres |-> "none", rexit |-> "none", complete |-> FALSE]))
=============================================================================
