----------------------------- MODULE Trace_Codec -----------------------------
(***************************************************************************)
(* Trace validation for the codec family (package replication called       *)
(* directly).  Every line of the trace is one call of the real code:       *)
(* abstract input, input bytes, observed output.  The transition relation  *)
(* consumes one line per step and evaluates the monitors of that line with *)
(* the format transcription (CellCodec, RowsFormat, EventFormat, JsonSem,  *)
(* GTID modules).  A failed monitor prints <<"MONFAIL", json>>.            *)
(***************************************************************************)
EXTENDS JsonSem, Json, GTIDText, JsonBinary

G == INSTANCE GTIDSet WITH GDefects <- {}
Ma == INSTANCE MariaGTID WITH MDefects <- {}

CONSTANTS TraceFile, Props

Trace == ndJsonDeserialize(TraceFile)

VARIABLES l, nviol, ncase, tn      \* tn: the (type code, type name) pairs seen so far in serialised transactions (C20)
tvars == <<l, nviol, ncase, tn>>

F(mon, e, what) == [mon |-> mon, id |-> e.id, fam |-> e.fn,
                    info |-> [what |-> what, cls |-> e.cls, typ |-> (IF "typ" \in DOMAIN e THEN e.typ ELSE 0),
                              metab |-> (IF "metab" \in DOMAIN e THEN e.metab ELSE <<>>)]]
\* one failure per violated clause of a conjunction list
Chk(mon, e, clauses) == {F(mon, e, c[2]) : c \in {x \in clauses : ~x[1]}}

(***************************************************************************)
(* fn = "cell": CellBytes on one cell (C10, C11, C12, C13).                *)
(***************************************************************************)
MonCell(e, p) ==
  LET o == e.obs IN
  (IF o.panic THEN {F(p \o ".panic", e, "CellBytes panicked")} ELSE
   IF o.err THEN {F(p \o ".error", e, "CellBytes returned an error for a valid value")} ELSE
   (IF o.len = Len(e.raw) /\ CellLen(e.typ, e.metab, e.raw, 1) = Len(e.raw) THEN {}
    ELSE {F(p \o ".length", e, "consumed length differs from the encoded length of the cell")}) \cup
   (IF CellMatches(e.typ, e.metab, e.raw, e.uns, e.tz, o) THEN {}
    ELSE {F(p \o ".value", e, "decoded text differs from the canonical text")}) \cup
   (IF o.hasdata THEN {} ELSE {F(p \o ".nil", e, "a value decoded to nil data (looks like NULL)")}))

\* the harness's zone projection is pinned for the fixed-offset zones (UTC, Asia/Kolkata = +05:30 since 1945)
ZoneOK(e) ==
  IF e.typ \notin {TTimestamp, TTimestamp2} THEN e.tz = 0
  ELSE CASE e.zone = "UTC" -> e.tz = 0
         [] e.zone = "Asia/Kolkata" -> e.tz = 19800
         [] OTHER -> e.tz \in (-50400)..50400

(***************************************************************************)
(* Batch lines: the texts of the consecutive w-byte raw values from, from+1,*)
(* ... (exhaustive small domains).  Values here fit TLC integers, so the   *)
(* rule is stated with ToString.                                           *)
(***************************************************************************)
P2(n) == IF n < 10 THEN "0" \o ToString(n) ELSE ToString(n)
P4(n) == IF n < 10 THEN "000" \o ToString(n) ELSE IF n < 100 THEN "00" \o ToString(n) ELSE IF n < 1000 THEN "0" \o ToString(n) ELSE ToString(n)

IntStr(v, w, uns) == IF uns \/ v < Pow(2, 8 * w - 1) THEN ToString(v) ELSE "-" \o ToString(Pow(2, 8 * w) - v)
DateStr(v) == P4(v \div 512) \o "-" \o P2((v \div 32) % 16) \o "-" \o P2(v % 32)
DateValid(v) == (v \div 32) % 16 <= 12 /\ v \div 512 <= 9999
TimeMag(v) == IF v >= 8388608 THEN 16777216 - v ELSE v
TimeValid(v) == LET m == TimeMag(v) IN m \div 10000 <= 838 /\ (m \div 100) % 100 <= 59 /\ m % 100 <= 59
TimeStr(v) == LET m == TimeMag(v) IN
  (IF v >= 8388608 THEN "-" ELSE "") \o P2(m \div 10000) \o ":" \o P2((m \div 100) % 100) \o ":" \o P2(m % 100)

MonBatch(e, p) ==
  LET n == Len(e.texts)
      want(i) == LET v == e.from + i - 1 IN
                 CASE e.fn = "intbatch" -> IntStr(v, e.w, e.uns)
                   [] e.fn = "datebatch" -> DateStr(v)
                   [] e.fn = "timebatch" -> TimeStr(v)
      judged(i) == LET v == e.from + i - 1 IN
                 CASE e.fn = "intbatch" -> TRUE
                   [] e.fn = "datebatch" -> DateValid(v)
                   [] e.fn = "timebatch" -> TimeValid(v)
      bad == {i \in 1..n : judged(i) /\ e.texts[i] # want(i)}
  IN IF bad = {} THEN {}
     ELSE LET i == CHOOSE j \in bad : \A k \in bad : j <= k IN
          {[mon |-> p \o ".value", id |-> e.id, fam |-> e.fn,
            info |-> [what |-> "decoded text differs from the canonical text", cls |-> e.cls, typ |-> e.typ, metab |-> e.metab,
                      raw |-> e.from + i - 1, got |-> e.texts[i], want |-> want(i), count |-> Cardinality(bad)]]}

(***************************************************************************)
(* GTID family (C18, C19).                                                 *)
(***************************************************************************)
Strip(rep) == [i \in 1..Len(rep) |-> [sid |-> rep[i].sid, ivs |-> [j \in 1..Len(rep[i].ivs) |-> [s |-> rep[i].ivs[j].s, e |-> rep[i].ivs[j].e]]]]
WMySQL56 == <<77, 121, 83, 81, 76, 53, 54, 47>>        \* MySQL56/
WMariaDB == <<77, 97, 114, 105, 97, 68, 66, 47>>       \* MariaDB/

MonGs56Add(e) ==
  LET r0 == Strip(e.rep)
      x  == G!NormalAdd(r0, e.sid, e.n)
      o  == e.obs
  IN Chk("C18.add", e, {
       <<o.buildErr = "", "the SID block of a canonical set was rejected">>,
       <<o.text = Set56Text(x), "AddGTID result is not the union in canonical form">>,
       <<o.text = Set56Text(G!AddOp(r0, e.sid, e.n)), "AddGTID result differs from the operational model">>,
       <<o.recvSame /\ o.recvText = Set56Text(r0), "AddGTID altered the set it was added to">>,
       <<o.had = G!MemberIvs(G!IvsOf(r0, e.sid), e.n), "ContainsGTID disagrees with set membership">>,
       <<o.has, "the added GTID is not contained in the result">>,
       <<o.flavor = "MySQL56", "flavor">>})

RECURSIVE HistFails(_, _, _, _)
\* reps: the abstract value of every set obtained so far (index 1 = the initial set); op k adds to reps[recv + 1]
HistFails(e, reps, ops, obs) ==
  IF ops = <<>> THEN {}
  ELSE LET g == Head(ops)  o == Head(obs)
           x == G!NormalAdd(reps[g.recv + 1], g.sid, g.n)
           reps2 == Append(reps, x)
       IN Chk("C18.history", e, {
            <<Len(o.texts) = Len(reps2) /\ o.texts[Len(reps2)] = Set56Text(x), "AddGTID history: result is not the union in canonical form">>,
            <<Len(o.texts) = Len(reps2) /\ \A i \in 1..Len(reps) : o.texts[i] = Set56Text(reps[i]),
              "AddGTID history: a set that already existed (the receiver or an earlier result) was altered">>,
            <<o.has, "AddGTID history: the added GTID is not contained in the result">>})
          \cup HistFails(e, reps2, Tail(ops), Tail(obs))
MonGs56History(e) == HistFails(e, <<Strip(e.rep)>>, e.ops, e.obs)

MonGs56Pair(e) ==
  LET a == Strip(e.a)  b == Strip(e.b) IN
  Chk("C18.pair", e, {
    <<e.obs.contains = G!SubsetRep(b, a), "Contains disagrees with the superset relation">>,
    <<e.obs.contains = G!ContainsOp(a, b), "Contains differs from the operational model">>,
    <<e.obs.equal = (G!SubsetRep(b, a) /\ G!SubsetRep(a, b)), "Equal disagrees with set equality">>})

GtidRoundTrip(p, e, text, prefix) ==
  LET o == e.obs IN
  Chk(p, e, {
    <<o.text = text, "String() is not the canonical text">>,
    <<~o.parseErr /\ o.text2 = text /\ o.eq, "parsing the printed text does not return an equal value">>,
    <<o.enc = prefix \o text, "flavor-tagged encoding">>,
    <<~o.decErr /\ o.text3 = text /\ o.eq3, "decoding the flavor-tagged encoding does not return an equal value">>,
    <<o.setText = text, "the single-GTID set of the GTID">>})

MonGtid56(e) == GtidRoundTrip("C19.gtid56", e, SidText(e.sid) \o <<58>> \o e.gno, WMySQL56)
MonGtid56Event(e) ==
  Chk("C19.gtid-event", e, {<<~e.obs.err /\ e.obs.isgtid /\ e.obs.text = SidText(e.sid) \o <<58>> \o e.gno, "GTID event does not decode to the identifier written">>})
MonGtidMaria(e) == GtidRoundTrip("C19.gtidmaria", e, MariaText(e.dom, e.srv, e.sq), WMariaDB)
MonGtidMariaEvent(e) ==
  Chk("C19.gtid-event", e, {
    <<~e.obs.err /\ e.obs.isgtid /\ e.obs.text = MariaText(e.dom, e.srv, e.sq), "MariaDB GTID event does not decode to the identifier written">>,
    <<e.obs.begin = ~e.standalone, "MariaDB GTID event: implicit BEGIN flag">>})

MonGs56Codec(e) ==
  LET o == e.obs  text == Set56TextS(e.rep) IN
  Chk("C19.set56", e, {
    <<o.buildErr = "", "the SID block of a canonical set was rejected: " \o o.buildErr>>,
    <<\A i \in 1..Len(e.rep) : \A j \in 1..Len(e.rep[i].ivs) : IvAnnotOK(e.rep[i].ivs[j]), "HARNESS: inconsistent interval annotations">>,
    <<o.text = text, "String() of a set is not the canonical text">>,
    <<~o.parseErr /\ o.text2 = text /\ o.eq, "parsing the printed set does not return an equal set">>,
    <<o.block = SidBlockBytes(e.rep), "SIDBlock() is not the binary form of the set">>,
    <<~o.blockErr /\ o.text3 = text /\ o.eq3, "the SID block does not decode back to an equal set">>,
    <<~o.prevErr /\ o.text4 = text, "PREVIOUS_GTIDS event does not decode to the set written">>})

\* a MariaDB set text as a set of entries
MariaEntries(text) == {[dom |-> ParseNat(Split(p, 45)[1]), srv |-> ParseNat(Split(p, 45)[2]), seq |-> ParseNat(Split(p, 45)[3])] :
                         p \in {Split(text, 44)[i] : i \in 1..Len(Split(text, 44))}}
AsSet(set) == {set[i] : i \in 1..Len(set)}
WellFormedMaria(text) == \A i \in 1..Len(Split(text, 44)) : Len(Split(Split(text, 44)[i], 45)) = 3

RECURSIVE MariaHist(_, _, _, _, _)
MariaHist(e, set, prevText, ops, obs) ==
  IF ops = <<>> THEN {}
  ELSE LET g == Head(ops)  o == Head(obs)
           x == Ma!AddOp(set, g)
       IN Chk("C19.mariaset", e, {
            <<WellFormedMaria(o.text) /\ MariaEntries(o.text) = AsSet(x) /\ Len(Split(o.text, 44)) = Len(x),
              "MariaDB AddGTID: result does not keep exactly one (the greatest) position per domain">>,
            <<o.recvSame /\ o.recvText = prevText, "MariaDB AddGTID altered the set it was added to">>,
            <<o.had = Ma!ContainsGtidOp(set, g), "MariaDB ContainsGTID does not compare sequence numbers within the domain">>,
            <<o.has /\ o.sup, "MariaDB AddGTID: result does not contain the GTID / the original set">>})
          \cup MariaHist(e, x, o.text, Tail(ops), Tail(obs))

MonGsMaria(e) ==
  LET o == e.obs IN
  Chk("C19.mariaset", e, {
    <<WellFormedMaria(o.text) /\ MariaEntries(o.text) = AsSet(e.entries) /\ Len(Split(o.text, 44)) = Len(e.entries), "String() of a MariaDB set">>,
    <<o.unchangedByString, "printing a MariaDB set changed the set">>,
    <<~o.parseErr /\ o.text2 = o.text /\ o.eq, "parsing the printed MariaDB set does not return an equal set">>,
    <<o.contains = Ma!ContainsOp(e.entries, e.other) /\ o.containedBy = Ma!ContainsOp(e.other, e.entries),
      "MariaDB Contains does not compare sequence numbers within each domain (whatever the order of the members)">>})
  \cup MariaHist(e, e.entries, o.text, e.ops, e.hist)

(***************************************************************************)
(* C09: rows events split into exactly the encoded rows and images.        *)
(***************************************************************************)
ValCells(cells) == SelectSeq(cells, LAMBDA c : c.st = "val")
ImageData(cells) == Concat([i \in 1..Len(ValCells(cells)) |-> ValCells(cells)[i].bytes])
PresentCells(cells) == SelectSeq(cells, LAMBDA c : c.st # "absent")
NullBits(cells) == [i \in 1..Len(PresentCells(cells)) |-> IF PresentCells(cells)[i].st = "null" THEN 1 ELSE 0]
\* the length rule applied along the image: lengths of the non-NULL present cells, from the spec's CellLen
RECURSIVE SpecLens(_, _, _, _)
SpecLens(cols, cells, data, pos) ==
  IF cells = <<>> THEN <<>>
  ELSE IF Head(cells).st # "val" THEN SpecLens(Tail(cols), Tail(cells), data, pos)
  ELSE LET n == CellLen(Head(cols).typ, Head(cols).metab, data, pos)
       IN <<n>> \o SpecLens(Tail(cols), Tail(cells), data, pos + n)
ByteLens(cells) == [i \in 1..Len(ValCells(cells)) |-> Len(ValCells(cells)[i].bytes)]

MonRows(e) ==
  LET o == e.obs
      P == IF "C13" \in Props /\ "C09" \notin Props THEN "C13" ELSE "C09"
      hasB == e.kind # "write"
      hasA == e.kind # "delete"
  IN IF o.panic THEN {F(P \o ".panic", e, "Rows() panicked on a well-formed event")}
     ELSE IF o.err THEN {F(P \o ".error", e, "Rows() returned an error for a well-formed event")}
     ELSE Chk(P \o ".rows", e, {
            <<o.nrows = Len(e.rows), "row count differs from the encoded row count">>,
            <<o.tid = e.tid, "table id of the rows event">>,
            <<(hasB => o.presentB = e.pb) /\ (hasA => o.presentA = e.pa), "columns-present bitmaps">>}) \cup
          UNION {
            LET r == e.rows[i]  x == o.rows[i] IN
            Chk(P \o ".image", e, {
              <<hasB => (x.id = ImageData(r.b) /\ x.nullsB = NullBits(r.b)), "before image / NULL bitmap differs from the encoded image">>,
              <<hasA => (x.data = ImageData(r.a) /\ x.nullsA = NullBits(r.a)), "after image / NULL bitmap differs from the encoded image">>}) \cup
            Chk(P \o ".consume", e, {
              <<hasB => (~x.walkB.err /\ ~x.walkB.panic /\ x.walkB.lens = ByteLens(r.b) /\ x.walkB.total = Len(ImageData(r.b))
                         /\ SpecLens(e.cols, r.b, ImageData(r.b), 1) = ByteLens(r.b)),
                "decoding the before image column by column does not consume it exactly">>,
              <<hasA => (~x.walkA.err /\ ~x.walkA.panic /\ x.walkA.lens = ByteLens(r.a) /\ x.walkA.total = Len(ImageData(r.a))
                         /\ SpecLens(e.cols, r.a, ImageData(r.a), 1) = ByteLens(r.a)),
                "decoding the after image column by column does not consume it exactly">>})
            : i \in 1..Min2(Len(e.rows), Len(o.rows))}

(***************************************************************************)
(* C15 (format half): table-map events.                                    *)
(***************************************************************************)
\* the library's packing of per-column metadata into one number (TableMap.Metadata, as documented on the type):
\* none -> 0, one byte -> that byte, NEWDECIMAL/ENUM/SET/STRING -> first byte * 256 + second, VARCHAR/BIT -> little endian
LibMeta(t, mb) ==
  IF Len(mb) = 0 THEN 0 ELSE IF Len(mb) = 1 THEN mb[1]
  ELSE IF t \in {TNewDecimal, TEnum, TSet, TString} THEN mb[1] * 256 + mb[2] ELSE mb[1] + 256 * mb[2]

MonTableMap(e) ==
  LET o == e.obs  n == Len(e.cols) IN
  IF o.panic THEN {F("C15.panic", e, "TableMap() panicked on a well-formed event")}
  ELSE IF o.err THEN {F("C15.error", e, "TableMap() returned an error for a well-formed event")}
  ELSE Chk("C15.tablemap", e, {
         <<o.istm /\ o.tid = e.tid, "table id">>,
         <<o.db = e.db /\ o.name = e.name, "database / table name">>,
         <<Len(o.types) = n /\ Len(o.metas) = n /\ Len(o.nullable) = n, "column count">>,
         <<Len(o.types) = n => \A c \in 1..n : o.types[c] = e.cols[c].typ, "column types">>,
         <<Len(o.metas) = n => \A c \in 1..n : o.metas[c] = LibMeta(e.cols[c].typ, e.cols[c].metab), "per-type metadata / byte order">>,
         <<Len(o.nullable) = n => \A c \in 1..n : (o.nullable[c] = 1) = e.cols[c].nullable, "nullability bitmap">>})

(***************************************************************************)
(* C16: headers and control events, with and without a trailing checksum.  *)
(***************************************************************************)
RECURSIVE TrimNul(_)
TrimNul(t) == IF t # <<>> /\ t[Len(t)] = 0 THEN TrimNul(Sub(t, 1, Len(t) - 1)) ELSE t
HdrOK(e) == e.obs.valid /\ ~e.obs.striperr /\ e.obs.ts = e.ts /\ e.obs.np = e.np

MonEvent(e) ==
  LET o == e.obs IN
  CASE e.fn = "ev.fde" ->
         Chk("C16.fde", e, {
           <<~o.err /\ ~o.panic /\ o.valid /\ o.isfde, "FORMAT_DESCRIPTION rejected">>,
           <<o.ts = e.ts /\ o.np = e.np, "header timestamp / next position">>,
           <<o.version = 4 /\ o.hlen = 19, "binlog version / header length">>,
           <<o.srvver = TrimNul(e.srvver), "server version">>,
           <<o.sizes = e.sizes, "per-event header sizes">>,
           <<~o.accPanic /\ o.sizesByAccessor = e.sizes, "per-event header sizes through the HeaderSize accessor (every described type)">>,
           <<o.alg = e.alg, "checksum algorithm">>})
    [] e.fn = "ev.rotate" ->
         Chk("C16.rotate", e, {<<~o.err /\ ~o.panic /\ o.is /\ HdrOK(e), "ROTATE header">>,
                               <<o.file = e.file /\ o.pos = e.pos, "ROTATE file name / position">>})
    [] e.fn = "ev.query" ->
         Chk("C16.query", e, {<<~o.err /\ ~o.panic /\ o.is /\ HdrOK(e), "QUERY header">>,
                              <<o.db = e.db, "QUERY database">>,
                              <<o.sql = e.sql, "QUERY SQL text">>,
                              <<o.charset = e.charset, "QUERY session charset (whatever other status variables are present)">>})
    [] e.fn = "ev.xid" -> Chk("C16.xid", e, {<<o.is /\ HdrOK(e), "XID header">>})
    [] e.fn = "ev.any" ->
         Chk("C16.checksum", e, {
           <<HdrOK(e), "header of an event (any type, any body length) after applying the checksum algorithm">>,
           <<o.stripped = (IF e.alg = 1 THEN Sub(o.raw, 1, Len(o.raw) - 4) ELSE o.raw) /\
             o.cks = (IF e.alg = 1 THEN Sub(o.raw, Len(o.raw) - 3, Len(o.raw)) ELSE <<>>),
             "applying the announced checksum algorithm does not remove exactly the trailing checksum">>})
    [] e.fn = "ev.intvar" ->
         Chk("C16.intvar", e, {<<~o.err /\ ~o.panic /\ o.is /\ HdrOK(e), "INTVAR header">>, <<o.kind = e.kind /\ o.value = e.value, "INTVAR kind / value">>})
    [] e.fn = "ev.rand" ->
         Chk("C16.rand", e, {<<~o.panic /\ o.is /\ HdrOK(e), "RAND header">>, <<o.s1 = e.s1 /\ o.s2 = e.s2, "RAND seeds">>})

(***************************************************************************)
(* C17 (format half): the validity gate.                                   *)
(***************************************************************************)
\* a buffer holds a full 19-byte header and its length field (bytes 10..13, little endian) equals the buffer length
LenFieldIs(buf, n) == buf[10] = n % 256 /\ buf[11] = (n \div 256) % 256 /\ buf[12] = (n \div 65536) % 256 /\ buf[13] = n \div 16777216
IsValidSpec(buf) == Len(buf) >= 19 /\ LenFieldIs(buf, Len(buf))
\* large buffers travel as (length, first 19 bytes)
MonIsValidBig(e) ==
  Chk("C17.gate", e, {
    <<~e.obs.panic, "IsValid panicked">>,
    <<e.obs.valid = (e.n >= 19 /\ LenFieldIs(e.hdr, e.n)),
      "IsValid disagrees with: full 19-byte header and length field = buffer length (an event larger than one protocol packet)">>})
MonIsValid(e) ==
  Chk("C17.gate", e, {
    <<~e.obs.panic, "IsValid panicked">>,
    <<e.obs.valid = IsValidSpec(e.buf), "IsValid disagrees with: full 19-byte header and length field = buffer length">>,
    <<~e.obs.accpanic, "a header accessor panicked on an accepted buffer">>})

(***************************************************************************)
(* C14: JSON columns.                                                      *)
(***************************************************************************)
MonJson(e) ==
  LET o == e.obs IN
  IF o.panic THEN {F("C14.panic", e, "decoding a JSON value panicked")}
  ELSE IF o.err THEN {F("C14.error", e, "decoding a well-formed JSON value returned an error")}
  ELSE (IF o.len = o.rawlen THEN {} ELSE {F("C14.length", e, "consumed length differs from the length of the JSON cell")}) \cup
       (IF o.parseErr # "" THEN {F("C14.text", e, "printed text is not of the documented form: " \o o.parseErr)}
        ELSE IF Denotes(o.tree, e.doc) THEN {}
        ELSE {[mon |-> "C14.denotes", id |-> e.id, fam |-> e.fn,
               info |-> [what |-> "printed text does not denote the stored document", cls |-> e.cls, typ |-> 245, metab |-> <<>>,
                         node |-> FirstDiff(o.tree, e.doc)]]})

(***************************************************************************)
(* C20: Transaction -> JSON.                                               *)
(***************************************************************************)
\* RFC 3629 well-formedness of a byte string
RECURSIVE IsUtf8(_)
IsUtf8(b) ==
  IF b = <<>> THEN TRUE
  ELSE LET c == b[1]
           cont(i) == Len(b) >= i /\ b[i] >= 128 /\ b[i] <= 191
       IN IF c <= 127 THEN IsUtf8(Tail(b))
          ELSE IF c >= 194 /\ c <= 223 THEN cont(2) /\ IsUtf8(Drop(b, 2))
          ELSE IF c = 224 THEN cont(2) /\ b[2] >= 160 /\ cont(3) /\ IsUtf8(Drop(b, 3))
          ELSE IF (c >= 225 /\ c <= 236) \/ c = 238 \/ c = 239 THEN cont(2) /\ cont(3) /\ IsUtf8(Drop(b, 3))
          ELSE IF c = 237 THEN cont(2) /\ b[2] <= 159 /\ cont(3) /\ IsUtf8(Drop(b, 3))
          ELSE IF c = 240 THEN cont(2) /\ b[2] >= 144 /\ cont(3) /\ cont(4) /\ IsUtf8(Drop(b, 4))
          ELSE IF c >= 241 /\ c <= 243 THEN cont(2) /\ cont(3) /\ cont(4) /\ IsUtf8(Drop(b, 4))
          ELSE IF c = 244 THEN cont(2) /\ b[2] <= 143 /\ cont(3) /\ cont(4) /\ IsUtf8(Drop(b, 4))
          ELSE FALSE
\* texts survive verbatim when they are valid UTF-8
Same(got, want) == IsUtf8(want) => got = want

ColOK(o, c) ==
  /\ Same(o.name, c.name)
  /\ o.isEmpty = (c.st = "absent")
  /\ o.isNull = ~c.hasdata                       \* SQL NULL (and absent) <-> JSON null, never the empty string
  /\ (c.hasdata => Same(o.data, c.data))
RowsOK(orows, rows) ==
  /\ Len(orows) = Len(rows)
  /\ \A r \in 1..Len(rows) : Len(orows[r]) = Len(rows[r]) /\ \A c \in 1..Len(rows[r]) : ColOK(orows[r][c], rows[r][c])

\* (type code, type name) pairs of a serialised transaction
RowsPairs(trows, orows) ==
  UNION {{<<trows[r][c].typ, orows[r][c].type>> : c \in 1..Min2(Len(trows[r]), Len(orows[r]))} : r \in 1..Min2(Len(trows), Len(orows))}
TypePairs(e) ==
  UNION {RowsPairs(e.tx.evs[j].vals, e.obs.evs[j].vals) \cup RowsPairs(e.tx.evs[j].ids, e.obs.evs[j].ids)
         : j \in 1..Min2(Len(e.tx.evs), Len(e.obs.evs))}
\* the type name identifies the type: code -> name is a function and it is injective
NamesConsistent(pairs) == \A a, b \in pairs : (a[1] = b[1]) = (a[2] = b[2])

MonTxJson(e) ==
  LET o == e.obs  t == e.tx IN
  IF o.panic \/ o.err THEN {F("C20.marshal", e, "serialising a transaction failed")}
  ELSE IF ~o.wellformed THEN {F("C20.wellformed", e, "the output is not well-formed JSON")}
  ELSE Chk("C20.structure", e, {
         <<o.shape, "members missing or of the wrong JSON type">>,
         <<o.now.off = t.now.off /\ o.next.off = t.next.off /\ Same(o.now.file, t.now.file) /\ Same(o.next.file, t.next.file), "positions">>,
         <<Len(o.evs) = Len(t.evs), "number / order of events">>,
         <<NamesConsistent(TypePairs(e) \cup tn), "the type name does not identify the column type">>}) \cup
       UNION {
         LET oe == o.evs[j]  te == t.evs[j] IN
         Chk("C20.event", e, {
           <<oe.typ = te.typ, "event kind">>,
           <<Same(oe.db, te.db) /\ Same(oe.tbl, te.tbl), "table name">>,
           <<te.sql # <<>> => (oe.hasSql /\ Same(oe.sql, te.sql)), "SQL text">>,
           <<te.sql = <<>> => (oe.hasRows /\ RowsOK(oe.vals, te.vals) /\ RowsOK(oe.ids, te.ids)), "columns: name / absent flag / NULL vs empty / data">>})
         : j \in 1..Min2(Len(o.evs), Len(t.evs))}

(***************************************************************************)
(* HARNESS.writer: the bytes the harness fed to the real decoders are the   *)
(* specification's encoding of the abstract event (EventFormat).  A failure *)
(* here is a defect of the harness, never of the library: the driver exits 2.*)
(***************************************************************************)
W(e, ok) == IF ok THEN {} ELSE {F("HARNESS.writer", e, "event bytes are not the specification's encoding of the abstract event")}
Crc(e) == IF "cksum" \in DOMAIN e THEN e.cksum ELSE e.alg = 1

WriterOK(e) ==
  CASE e.fn = "rows" ->
         W(e, IsEvent(e.evbytes, <<55, 55>>, RowsType(e.kind, e.v2), <<49>>, <<49, 48, 48, 48>>, 0,
                      RowsBodyP(e.tidw, e.tidtext, e.v2, e.extrab, Len(e.cols), e.kind, e.pb, e.pa, e.rows, e.padones), e.cksum))
    [] e.fn = "tablemap" ->
         W(e, IsEvent(e.evbytes, <<53>>, 19, <<51>>, <<56, 48, 48>>, 0,
                      TableMapBody(e.tidw, e.tidtext, e.db, e.name, e.cols, e.tail), e.cksum))
    [] e.fn = "ev.rotate" -> W(e, IsEvent(e.obs.raw, e.tst, 4, e.sidt, e.npt, e.flags, RotateBody(e.pos, e.file), Crc(e)))
    [] e.fn = "ev.xid" -> W(e, IsEvent(e.obs.raw, e.tst, 16, e.sidt, e.npt, e.flags, XidBody(e.xid8), Crc(e)))
    [] e.fn = "ev.any" -> W(e, IsEvent(e.obs.raw, e.tst, e.typ, e.sidt, e.npt, e.flags, e.body, Crc(e)))
    [] e.fn = "ev.intvar" -> W(e, IsEvent(e.obs.raw, e.tst, 5, e.sidt, e.npt, e.flags, IntVarBody(e.kind, e.value), Crc(e)))
    [] e.fn = "ev.rand" -> W(e, IsEvent(e.obs.raw, e.tst, 13, e.sidt, e.npt, e.flags, RandBody(e.s1, e.s2), Crc(e)))
    [] e.fn = "ev.query" ->
         W(e, IsEvent(e.obs.raw, e.tst, 2, e.sidt, e.npt, e.flags, QueryBody(e.thread4, e.exec4, e.err2, e.vars, e.db, e.sql), Crc(e)))
    [] e.fn = "ev.fde" ->
         W(e, IsEvent(e.raw, e.tst, 15, e.sidt, e.npt, e.flags, FdeBody(e.srvver, e.create4, e.sizes, e.alg), TRUE))
    [] e.fn = "json" -> W(e, e.bin = JsonbDoc(e.doc, e.forced))
    [] e.fn = "ev.hist" ->
         \* every event of a generated stream-family history
         LET body == CASE e.k = "fde" -> FdeBody(e.srvver, e.create4, e.sizes, e.alg)
                       [] e.k = "rotate" -> RotateBody(e.pos, e.file)
                       [] e.k = "xid" -> XidBody(e.xid8)
                       [] e.k = "query" -> QueryBody(e.thread4, e.exec4, e.err2, e.vars, e.db, e.sql)
                       [] e.k = "tablemap" -> TableMapBody(e.tidw, e.tidtext, e.db, e.name, e.cols, e.tail)
                       [] e.k \in {"write", "update", "delete"} ->
                            RowsBodyP(e.tidw, e.tidtext, e.v2, e.extrab, Len(e.cols), e.k, e.pb, e.pa, e.rows, e.padones)
                       [] e.k \in {"gtid", "anongtid"} -> GtidBody(1, e.sid16, e.gno8, e.gtail)
                       [] e.k = "prevgtids" -> SidBlockBytes(e.rep)
                       [] e.k = "heartbeat" -> e.file
                       [] e.k = "unknown" -> e.body
             typ == CASE e.k = "fde" -> 15 [] e.k = "rotate" -> 4 [] e.k = "xid" -> 16 [] e.k = "query" -> 2 [] e.k = "tablemap" -> 19
                      [] e.k \in {"write", "update", "delete"} -> RowsType(e.k, e.v2)
                      [] e.k = "gtid" -> 33 [] e.k = "anongtid" -> 34 [] e.k = "prevgtids" -> 35 [] e.k = "heartbeat" -> 27
                      [] e.k = "unknown" -> e.code
         IN W(e, IsEvent(e.evbytes, e.tst, typ, e.sidt, e.npt, e.flags, body, e.cksum \/ e.k = "fde")) \cup
            (IF e.obs.valid /\ e.obs.ts = e.ts /\ e.obs.np = e.np THEN {}
             ELSE {F("C16.header", e, "a well-formed event of a history is rejected by the validity test or its header fields differ")})
    [] OTHER -> {}

Mon(e) ==
  CASE e.fn = "rows" -> MonRows(e)
    [] e.fn = "txjson" -> MonTxJson(e)
    [] e.fn = "json" -> MonJson(e)
    [] e.fn = "tablemap" -> MonTableMap(e)
    [] e.fn \in {"ev.fde", "ev.rotate", "ev.query", "ev.xid", "ev.intvar", "ev.rand", "ev.any"} -> MonEvent(e)
    [] e.fn = "isvalid" -> MonIsValid(e)
    [] e.fn = "gs56.add" -> MonGs56Add(e)
    [] e.fn = "gs56.history" -> MonGs56History(e)
    [] e.fn = "gs56.pair" -> MonGs56Pair(e)
    [] e.fn = "gtid56" -> MonGtid56(e)
    [] e.fn = "gtid56.event" -> MonGtid56Event(e)
    [] e.fn = "gtidmaria" -> MonGtidMaria(e)
    [] e.fn = "gtidmaria.event" -> MonGtidMariaEvent(e)
    [] e.fn = "gs56.codec" -> MonGs56Codec(e)
    [] e.fn = "isvalid.big" -> MonIsValidBig(e)
    [] e.fn = "gsmaria" -> MonGsMaria(e)
    [] e.fn = "cell" -> UNION {MonCell(e, p) : p \in Props} \cup
                        (IF ZoneOK(e) THEN {} ELSE {F("HARNESS.zone", e, "zone offset logged by the harness is not the zone's")})
    [] e.fn \in {"intbatch", "datebatch", "timebatch"} -> UNION {MonBatch(e, p) : p \in Props}
    [] e.fn = "cellpair" ->
         \* both values are judged AFTER both calls: a later call must not change an earlier result
         UNION {MonCell(e, p) \cup MonCell([e EXCEPT !.raw = e.raw2, !.tz = e.tz2, !.obs = e.obs2], p) : p \in Props}
    [] OTHER -> {}

TInit == l = 1 /\ nviol = 0 /\ ncase = 0 /\ tn = {}

TNext ==
  /\ l <= Len(Trace)
  /\ l' = l + 1
  /\ LET e == Trace[l] IN
       IF e.ev = "case"
       THEN LET bad == Mon(e) \cup WriterOK(e) IN
              /\ ncase' = ncase + 1
              /\ nviol' = nviol + Cardinality(bad)
              /\ tn' = IF e.fn = "txjson" /\ e.obs.wellformed /\ ~e.obs.err THEN tn \cup TypePairs(e) ELSE tn
              /\ \A b \in bad : PrintT(<<"MONFAIL", ToJson(b)>>)
       ELSE UNCHANGED <<nviol, ncase, tn>>

TSpec == TInit /\ [][TNext]_tvars

AllConsumed == TLCGet("stats").diameter - 1 = Len(Trace)
Summary == l = Len(Trace) + 1 => PrintT(<<"SUMMARY", ncase, nviol>>)
=============================================================================
