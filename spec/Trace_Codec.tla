----------------------------- MODULE Trace_Codec -----------------------------
(***************************************************************************)
(* Trace validation for the codec family (package replication called       *)
(* directly).  Every line of the trace is one call of the real code:       *)
(* abstract input, input bytes, observed output.  The transition relation  *)
(* consumes one line per step and evaluates the monitors of that line with *)
(* the format transcription (CellCodec, RowsFormat, EventFormat, JsonSem,  *)
(* GTID modules).  A failed monitor prints <<"MONFAIL", json>>.            *)
(***************************************************************************)
EXTENDS CellCodec, Json

CONSTANTS TraceFile, Props

Trace == ndJsonDeserialize(TraceFile)

VARIABLES l, nviol, ncase
tvars == <<l, nviol, ncase>>

F(mon, e, what) == [mon |-> mon, id |-> e.id, fam |-> e.fn,
                    info |-> [what |-> what, cls |-> e.cls, typ |-> (IF "typ" \in DOMAIN e THEN e.typ ELSE 0),
                              metab |-> (IF "metab" \in DOMAIN e THEN e.metab ELSE <<>>)]]

(***************************************************************************)
(* fn = "cell": CellBytes on one cell (C10, C11, C12, C13).                *)
(***************************************************************************)
MonCell(e, p) ==
  LET o == e.obs IN
  (IF o.panic THEN {F(p \o ".panic", e, "CellBytes panicked")} ELSE
   IF o.err THEN {F(p \o ".error", e, "CellBytes returned an error for a valid value")} ELSE
   (IF o.len = Len(e.raw) /\ CellLen(e.typ, e.metab, e.raw, 1) = Len(e.raw) THEN {}
    ELSE {F(p \o ".length", e, "consumed length differs from the encoded length of the cell")}) \cup
   (IF CellMatches(e.typ, e.metab, e.raw, e.uns, e.tz, o) THEN {}
    ELSE {F(p \o ".value", e, "decoded text differs from the canonical text")}) \cup
   (IF o.hasdata THEN {} ELSE {F(p \o ".nil", e, "a value decoded to nil data (looks like NULL)")}))

\* the harness's zone projection is pinned for the fixed-offset zones (UTC, Asia/Kolkata = +05:30 since 1945)
ZoneOK(e) ==
  IF e.typ \notin {TTimestamp, TTimestamp2} THEN e.tz = 0
  ELSE CASE e.zone = "UTC" -> e.tz = 0
         [] e.zone = "Asia/Kolkata" -> e.tz = 19800
         [] OTHER -> e.tz \in (-50400)..50400

(***************************************************************************)
(* Batch lines: the texts of the consecutive w-byte raw values from, from+1,*)
(* ... (exhaustive small domains).  Values here fit TLC integers, so the   *)
(* rule is stated with ToString.                                           *)
(***************************************************************************)
P2(n) == IF n < 10 THEN "0" \o ToString(n) ELSE ToString(n)
P4(n) == IF n < 10 THEN "000" \o ToString(n) ELSE IF n < 100 THEN "00" \o ToString(n) ELSE IF n < 1000 THEN "0" \o ToString(n) ELSE ToString(n)

IntStr(v, w, uns) == IF uns \/ v < Pow(2, 8 * w - 1) THEN ToString(v) ELSE "-" \o ToString(Pow(2, 8 * w) - v)
DateStr(v) == P4(v \div 512) \o "-" \o P2((v \div 32) % 16) \o "-" \o P2(v % 32)
DateValid(v) == (v \div 32) % 16 <= 12 /\ v \div 512 <= 9999
TimeMag(v) == IF v >= 8388608 THEN 16777216 - v ELSE v
TimeValid(v) == LET m == TimeMag(v) IN m \div 10000 <= 838 /\ (m \div 100) % 100 <= 59 /\ m % 100 <= 59
TimeStr(v) == LET m == TimeMag(v) IN
  (IF v >= 8388608 THEN "-" ELSE "") \o P2(m \div 10000) \o ":" \o P2((m \div 100) % 100) \o ":" \o P2(m % 100)

MonBatch(e, p) ==
  LET n == Len(e.texts)
      want(i) == LET v == e.from + i - 1 IN
                 CASE e.fn = "intbatch" -> IntStr(v, e.w, e.uns)
                   [] e.fn = "datebatch" -> DateStr(v)
                   [] e.fn = "timebatch" -> TimeStr(v)
      judged(i) == LET v == e.from + i - 1 IN
                 CASE e.fn = "intbatch" -> TRUE
                   [] e.fn = "datebatch" -> DateValid(v)
                   [] e.fn = "timebatch" -> TimeValid(v)
      bad == {i \in 1..n : judged(i) /\ e.texts[i] # want(i)}
  IN IF bad = {} THEN {}
     ELSE LET i == CHOOSE j \in bad : \A k \in bad : j <= k IN
          {[mon |-> p \o ".value", id |-> e.id, fam |-> e.fn,
            info |-> [what |-> "decoded text differs from the canonical text", cls |-> e.cls, typ |-> e.typ, metab |-> e.metab,
                      raw |-> e.from + i - 1, got |-> e.texts[i], want |-> want(i), count |-> Cardinality(bad)]]}

Mon(e) ==
  CASE e.fn = "cell" -> UNION {MonCell(e, p) : p \in Props} \cup
                        (IF ZoneOK(e) THEN {} ELSE {F("HARNESS.zone", e, "zone offset logged by the harness is not the zone's")})
    [] e.fn \in {"intbatch", "datebatch", "timebatch"} -> UNION {MonBatch(e, p) : p \in Props}
    [] OTHER -> {}

TInit == l = 1 /\ nviol = 0 /\ ncase = 0

TNext ==
  /\ l <= Len(Trace)
  /\ l' = l + 1
  /\ LET e == Trace[l] IN
       IF e.ev = "case"
       THEN LET bad == Mon(e) IN
              /\ ncase' = ncase + 1
              /\ nviol' = nviol + Cardinality(bad)
              /\ \A b \in bad : PrintT(<<"MONFAIL", ToJson(b)>>)
       ELSE UNCHANGED <<nviol, ncase>>

TSpec == TInit /\ [][TNext]_tvars

AllConsumed == TLCGet("stats").diameter - 1 = Len(Trace)
Summary == l = Len(Trace) + 1 => PrintT(<<"SUMMARY", ncase, nviol>>)
=============================================================================
