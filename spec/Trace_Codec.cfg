SPECIFICATION TSpec
INVARIANT Summary
POSTCONDITION AllConsumed
CHECK_DEADLOCK FALSE
