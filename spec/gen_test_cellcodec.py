#!/usr/bin/env python3
"""Generates Test_CellCodec.tla: unit tests of the SPEC's format transcription against byte strings
captured from real servers (the vectors of replication/binlog_event_rbr_test.go, read-only) and values
computed here with Python's arbitrary-precision integers."""
def seq(b): return "<<" + ",".join(str(x) for x in b) + ">>"
def txt(s): return seq(s.encode() if isinstance(s,str) else s)
T=[]
def t(typ, mb, raw, uns, exp, tz=0):
    T.append("ASSUME CellText(%s, %s, %s, %s, %d) = %s   \\* %s" % (typ, seq(mb), seq(raw), "TRUE" if uns else "FALSE", tz, txt(exp), exp if isinstance(exp,str) else ""))
t("TTiny",[], [0x82], True, "130")
t("TTiny",[], [0xfe], False, "-2")
t("TYear",[], [0x82], False, "2030")
t("TYear",[], [0], False, "0000")
t("TShort",[], [0x82,0x81], True, str(0x8182))
t("TShort",[], [0xfe,0xff], False, "-2")
t("TInt24",[], [0x83,0x82,0x81], True, str(0x818283))
t("TInt24",[], [0xfd,0xfe,0xff], False, str(-1-0x000102))
t("TLong",[], [0x84,0x83,0x82,0x81], True, str(0x81828384))
t("TLong",[], [0xfc,0xfd,0xfe,0xff], False, str(-1-0x00010203))
t("TLongLong",[], [0x88,0x87,0x86,0x85,0x84,0x83,0x82,0x81], True, str(0x8182838485868788))
t("TLongLong",[], [0xf8,0xf9,0xfa,0xfb,0xfc,0xfd,0xfe,0xff], False, str(-1-0x0001020304050607))
t("TLongLong",[], [255]*8, True, str(2**64-1))
t("TLongLong",[], [0,0,0,0,0,0,0,128], False, str(-2**63))
t("TDate",[], [0x43,0xb5,0x0f], False, "2010-10-03")
t("TNewDate",[], [0x43,0xb5,0x0f], False, "2010-10-03")
t("TDate",[], [0,0,0], False, "0000-00-00")
t("TTime",[], [0xa4,0x5b,0x02], False, "15:45:32")
t("TTime",[], [0xff,0xff,0xff], False, "-00:00:01")
v=(-8385959)&0xffffff
t("TTime",[], [v&255,(v>>8)&255,v>>16], False, "-838:59:59")
v=(-50000)&0xffffff
t("TTime",[], [v&255,(v>>8)&255,v>>16], False, "-05:00:00")
t("TDateTime",[], [0xa4,0x07,0x48,0x6e,0x0b,0x12,0,0], False, "1984-03-04 15:45:32")
t("TTimestamp",[], [0xc5,0x37,0xd1,0x58], False, "2017-03-21 14:25:09")
t("TTimestamp",[], [0,0,0,0], False, "0000-00-00 00:00:00")
t("TTimestamp",[], [0xc5,0x37,0xd1,0x58], False, "2017-03-21 19:55:09", 19800)
t("TTimestamp",[], [1,0,0,0], False, "1969-12-31 16:00:01", -28800)
t("TTimestamp",[], [255,255,255,255], False, "2106-02-07 06:28:15")
t("TTimestamp2",[0], [0x58,0xd1,0x37,0xc5], False, "2017-03-21 14:25:09")
t("TTimestamp2",[1], [0x58,0xd1,0x37,0xc5,70], False, "2017-03-21 14:25:09.7")
t("TTimestamp2",[2], [0x58,0xd1,0x37,0xc5,76], False, "2017-03-21 14:25:09.76")
t("TTimestamp2",[3], [0x58,0xd1,0x37,0xc5,0x1d,0xe2], False, "2017-03-21 14:25:09.765")
t("TTimestamp2",[4], [0x58,0xd1,0x37,0xc5,0x1d,0xe6], False, "2017-03-21 14:25:09.7654")
t("TTimestamp2",[5], [0x58,0xd1,0x37,0xc5,0x0b,0xad,0xf6], False, "2017-03-21 14:25:09.76543")
t("TTimestamp2",[6], [0x58,0xd1,0x37,0xc5,0x0b,0xad,0xf8], False, "2017-03-21 14:25:09.765432")
t("TTimestamp2",[2], [0,0,0,0,5], False, "0000-00-00 00:00:00.05")
t("TDateTime2",[0], [0x99,0x8c,0xaa,0xfb,0x51], False, "2012-06-21 15:45:17")
t("TDateTime2",[1], [0x99,0x8c,0xaa,0xfb,0x51,70], False, "2012-06-21 15:45:17.7")
t("TDateTime2",[3], [0x99,0x8c,0xaa,0xfb,0x51,0x1d,0xe2], False, "2012-06-21 15:45:17.765")
t("TDateTime2",[5], [0x99,0x8c,0xaa,0xfb,0x51,0x0b,0xad,0xf6], False, "2012-06-21 15:45:17.76543")
t("TDateTime2",[6], [0x99,0x8c,0xaa,0xfb,0x51,0x0b,0xad,0xf8], False, "2012-06-21 15:45:17.765432")
t("TDateTime2",[0], [0x80,0,0,0,0], False, "0000-00-00 00:00:00")
for raw,fsp,exp in [([0x80,0,0,0],2,"00:00:00.00"),([0x7f,0xff,0xff,0xff],2,"-00:00:00.01"),([0x7f,0xff,0xff,0x9d],2,"-00:00:00.99"),
  ([0x7f,0xff,0xff,0x00],2,"-00:00:01.00"),([0x7f,0xff,0xfe,0xff],2,"-00:00:01.01"),([0x7f,0xff,0xfe,0xf6],2,"-00:00:01.10"),
  ([0x80,0,0,0,0],4,"00:00:00.0000"),([0x7f,0xff,0xff,0xff,0xff],4,"-00:00:00.0001"),([0x7f,0xff,0xff,0xff,0x9d],4,"-00:00:00.0099"),
  ([0x7f,0xff,0xff,0,0],4,"-00:00:01.0000"),([0x7f,0xff,0xfe,0xff,0xff],4,"-00:00:01.0001"),([0x7f,0xff,0xfe,0xff,0xf6],4,"-00:00:01.0010"),
  ([0x80,0,0,0,0,0],6,"00:00:00.000000"),([0x7f,0xff,0xff,0xff,0xff,0xff],6,"-00:00:00.000001"),([0x7f,0xff,0xff,0xff,0xff,0x9d],6,"-00:00:00.000099"),
  ([0x7f,0xff,0xff,0,0,0],6,"-00:00:01.000000"),([0x7f,0xff,0xfe,0xff,0xff,0xff],6,"-00:00:01.000001"),([0x7f,0xff,0xfe,0xff,0xff,0xf6],6,"-00:00:01.000010"),
  ([0x80,0,0],0,"00:00:00"),([0x80,0,1,0x0a],1,"00:00:01.1"),([0x80,0,1,0x0a],2,"00:00:01.10"),([0x80,0xf8,0xb6],0,"15:34:54"),
  ([0x7f,0x07,0x4a],0,"-15:34:54"),([0xb4,0x6e,0xfb],0,"838:59:59"),([0x4b,0x91,0x05],0,"-838:59:59")]:
    t("TTime2",[fsp],raw,False,exp)
# decimals (hand-encoded per A.6)
def dec(p,s,neg,digs):
    intg=p-s; d2b=[0,1,1,2,2,3,3,4,4,4]; out=[]
    def grp(ds,nb):
        v=int(ds) if ds else 0
        out.extend(v.to_bytes(nb,'big'))
    lead=intg%9; pos=0
    if lead: grp(digs[:lead],d2b[lead]); pos=lead
    while pos+9<=intg: grp(digs[pos:pos+9],4); pos+=9
    f=intg
    while f+9<=p: grp(digs[f:f+9],4); f+=9
    if p-f: grp(digs[f:p],d2b[p-f])
    if neg: out[:]=[x^0xff for x in out]
    out[0]^=0x80
    return out
for p,s,neg,digs,exp in [(14,4,False,"12345678901234","1234567890.1234"),(14,4,True,"12345678901234","-1234567890.1234"),
  (10,0,False,"0000000000","0"),(18,0,False,"000000000000000005","5"),(14,4,False,"00000000120000","12.0000"),(4,4,False,"1234","0.1234"),
  (65,30,True,"9"*65,"-"+"9"*35+"."+"9"*30),(65,30,False,"0"*34+"1"+"0"*29+"1","1."+"0"*29+"1"),(1,0,False,"7","7"),(1,1,True,"7","-0.7"),
  (20,2,False,"000000000100000000"+"05","100000000.05"),(27,9,False,"0"*9+"000000001"+"000000001","1.000000001")]:
    t("TNewDecimal",[p,s],dec(p,s,neg,digs),False,exp)
t("TVarchar",[20,0],[3,97,98,99],False,"abc")
t("TVarchar",[128,1],[3,0,97,98,99],False,"abc")
t("TVarchar",[255,0],[0],False,"")
t("TString",[254,10],[2,97,98],False,"ab")
t("TString",[238,0],[2,0,97,98],False,"ab")
t("TString",[247,1],[3],False,"3")
t("TString",[247,2],[1,1],False,"257")
t("TString",[248,2],[1,1],False,"257")
t("TString",[248,8],[255]*8,False,str(2**64-1))
t("TBit",[7,1],[3,1],False,bytes([3,1]))
t("TBlob",[2],[3,0,97,98,99],False,"abc")
t("TGeometry",[1],[2,1,2],False,bytes([1,2]))
out=["--------------------------- MODULE Test_CellCodec ---------------------------",
"(* GENERATED by gen_test_cellcodec.py. Unit tests of the spec's format transcription. *)",
"EXTENDS CellCodec",""]+T+[
"ASSUME StringMax(<<238,0>>) = 256 /\\ StringMax(<<254,255>>) = 255 /\\ StringMax(<<206,255>>) = 1023 /\\ StringMax(<<254,0>>) = 0",
"ASSUME CellLen(TBlob, <<2>>, <<9,9,3,0,97,98,99>>, 3) = 5",
"ASSUME CellLen(TNewDecimal, <<14,4>>, <<>>, 1) = 7 /\\ CellLen(TNewDecimal, <<65,30>>, <<>>, 1) = 30",
"ASSUME CellLen(TBit, <<7,1>>, <<>>, 1) = 2 /\\ CellLen(TBit, <<0,8>>, <<>>, 1) = 8 /\\ CellLen(TBit, <<1,0>>, <<>>, 1) = 1",
"ASSUME CellLen(TString, <<238,0>>, <<2,0,97,98>>, 1) = 4 /\\ CellLen(TString, <<248,3>>, <<>>, 1) = 3",
"ASSUME CellLen(TTime2, <<5>>, <<>>, 1) = 6 /\\ CellLen(TDateTime2, <<1>>, <<>>, 1) = 6 /\\ CellLen(TTimestamp2, <<4>>, <<>>, 1) = 6",
"ASSUME IsPlainDecimal(<<45,49,46,53>>) /\\ IsPlainDecimal(<<48>>) /\\ ~IsPlainDecimal(<<49,101,53>>) /\\ ~IsPlainDecimal(<<46,53>>) /\\ ~IsPlainDecimal(<<>>)",
"============================================================================="]
open("Test_CellCodec.tla","w").write("\n".join(out)+"\n")
print(len(T),"vectors")
