SPECIFICATION GSpec
CONSTANTS
  Defects = {}
  MaxUnits = 2
  MaxStmts = 1
  WithInvalid = FALSE
  MaxAttempts = 3
  MaxFailed = 2
INVARIANTS Emit GenOK
CHECK_DEADLOCK FALSE
