------------------------------ MODULE GTIDText ------------------------------
(***************************************************************************)
(* Text and binary forms of GTIDs and GTID sets (DESIGN.md Appendix A.8,   *)
(* A.4): SID as hex 8-4-4-4-12, "sid:gno", sets "sid:a-b:c,sid:...", SIDs  *)
(* ascending by bytes, the SID block, MariaDB "domain-server-sequence".    *)
(* Texts are sequences of ASCII codes.                                     *)
(***************************************************************************)
EXTENDS Bytes, SequencesExt

HexChar(n) == IF n < 10 THEN 48 + n ELSE 87 + n            \* lower case
HexByte(b) == <<HexChar(b \div 16), HexChar(b % 16)>>
HexOf(bs) == Concat([i \in 1..Len(bs) |-> HexByte(bs[i])])
SidText(sid) == HexOf(Sub(sid, 1, 4)) \o <<45>> \o HexOf(Sub(sid, 5, 6)) \o <<45>> \o HexOf(Sub(sid, 7, 8)) \o <<45>> \o
                HexOf(Sub(sid, 9, 10)) \o <<45>> \o HexOf(Sub(sid, 11, 16))

RECURSIVE LexLess(_, _)
LexLess(a, b) == IF b = <<>> THEN FALSE ELSE IF a = <<>> THEN TRUE
                 ELSE IF Head(a) # Head(b) THEN Head(a) < Head(b) ELSE LexLess(Tail(a), Tail(b))

RECURSIVE Join(_, _)
Join(parts, sep) == IF parts = <<>> THEN <<>> ELSE IF Len(parts) = 1 THEN parts[1] ELSE parts[1] \o sep \o Join(Tail(parts), sep)

\* intervals with integer endpoints
IvText(iv) == IF iv.s = iv.e THEN SmallText(iv.s) ELSE SmallText(iv.s) \o <<45>> \o SmallText(iv.e)
\* intervals with textual endpoints (numbers beyond 2^31)
IvTextS(iv) == IF iv.st = iv.et THEN iv.st ELSE iv.st \o <<45>> \o iv.et

EntryText(en, ivt(_)) == SidText(en.sid) \o <<58>> \o Join([j \in 1..Len(en.ivs) |-> ivt(en.ivs[j])], <<58>>)
\* insertion sort of entries by SID bytes (SIDs are distinct)
RECURSIVE InsertBySid(_, _)
InsertBySid(srt, en) ==
  IF srt = <<>> THEN <<en>>
  ELSE IF LexLess(en.sid, Head(srt).sid) THEN <<en>> \o srt
  ELSE <<Head(srt)>> \o InsertBySid(Tail(srt), en)
RECURSIVE SortedBySid(_)
SortedBySid(rep) == IF rep = <<>> THEN <<>> ELSE InsertBySid(SortedBySid(Tail(rep)), Head(rep))
Set56Text(rep) == Join([i \in 1..Len(rep) |-> EntryText(SortedBySid(rep)[i], IvText)], <<44>>)
Set56TextS(rep) == Join([i \in 1..Len(rep) |-> EntryText(SortedBySid(rep)[i], IvTextS)], <<44>>)

\* little-endian increment
RECURSIVE IncLE(_)
IncLE(bs) == IF bs = <<>> THEN <<>> ELSE IF Head(bs) = 255 THEN <<0>> \o IncLE(Tail(bs)) ELSE <<Head(bs) + 1>> \o Tail(bs)
LE8(n) == [i \in 1..8 |-> (n \div Pow(256, i - 1)) % 256]    \* for small n (i <= 3 contributes)
LE8small(n) == <<n % 256, (n \div 256) % 256, (n \div 65536) % 256, 0, 0, 0, 0, 0>>

\* SID block: number of SIDs (8), per SID: SID (16), number of intervals (8), per interval start (8), end+1 (8)
SidBlockBytes(rep) ==
  LET srt == SortedBySid(rep) IN
  LE8small(Len(srt)) \o
  Concat([i \in 1..Len(srt) |->
     srt[i].sid \o LE8small(Len(srt[i].ivs)) \o
     Concat([j \in 1..Len(srt[i].ivs) |-> srt[i].ivs[j].s8 \o srt[i].ivs[j].x8])])

\* consistency of the numeric annotations of a wide interval
IvAnnotOK(iv) == DigitsText(LEDigits(iv.s8)) = iv.st /\ DigitsText(LEDigits(iv.e8)) = iv.et /\ iv.x8 = IncLE(iv.e8)

MariaText(dom, srv, seq) == dom \o <<45>> \o srv \o <<45>> \o seq

\* split a text at a separator
RECURSIVE SplitAcc(_, _, _, _)
SplitAcc(t, sep, cur, acc) ==
  IF t = <<>> THEN Append(acc, cur)
  ELSE IF Head(t) = sep THEN SplitAcc(Tail(t), sep, <<>>, Append(acc, cur))
  ELSE SplitAcc(Tail(t), sep, Append(cur, Head(t)), acc)
Split(t, sep) == IF t = <<>> THEN <<>> ELSE SplitAcc(t, sep, <<>>, <<>>)

RECURSIVE ParseNat(_)
ParseNat(t) == IF t = <<>> THEN 0 ELSE ParseNat(Sub(t, 1, Len(t) - 1)) * 10 + (t[Len(t)] - 48)
=============================================================================
