SPECIFICATION Spec
CONSTANT N = 3
INVARIANT Emit
CHECK_DEADLOCK FALSE
