------------------------------ MODULE Streamer ------------------------------
(***************************************************************************)
(* Operational model of the event parser (streamer.go: parseEvents), one   *)
(* operator per case of its dispatch loop.  The state is a record so that  *)
(* the same definitions serve three uses:                                  *)
(*   - MC_Streamer / MC_Session explore it with TLC (Recv* are the actions)*)
(*   - Run(events, st) folds it over a packet sequence (resume checks)     *)
(*   - Trace_Stream replays recorded executions of the real code against it*)
(*                                                                         *)
(* Defects is a set of names of realistic implementation mistakes; with    *)
(* Defects = {} the model is the specification.  The non-empty settings    *)
(* exist to show that every property can fail (selftest) and to document   *)
(* the behaviour of the pinned tree where it deviated.                     *)
(***************************************************************************)
EXTENDS BinlogSem

CONSTANT Defects

NoTable == [id |-> "none", db |-> <<>>, name |-> <<>>, cols |-> <<>>]

\* st.tables is a sequence of [id, tbl] (the table cache); lookup by id
HasTable(st, id) == \E i \in 1..Len(st.tables) : st.tables[i].id = id
TableOf(st, id) == (CHOOSE i \in 1..Len(st.tables) : st.tables[i].id = id)
PutTable(st, id, tbl) ==
  IF HasTable(st, id)
  THEN [i \in 1..Len(st.tables) |-> IF st.tables[i].id = id THEN [id |-> id, tbl |-> tbl] ELSE st.tables[i]]
  ELSE Append(st.tables, [id |-> id, tbl |-> tbl])

StInit(pos) ==
  [format     |-> FALSE,        \* a FORMAT_DESCRIPTION has been seen
   tables     |-> <<>>,         \* table cache
   tran       |-> <<>>,         \* changes of the open transaction
   autocommit |-> TRUE,
   pos        |-> pos,          \* position the parser will return (the resume point)
   delivered  |-> <<>>,         \* handler invocations, in order
   accepted   |-> <<>>,         \* those for which the handler returned nil
   status     |-> "run",        \* run | error | stopped
   err        |-> "none"]

Fail(st, why) == [st EXCEPT !.status = "error", !.err = why]

(***************************************************************************)
(* Commit sub-step: build the transaction, call the handler (h = its       *)
(* result), and only when it accepted advance the position.                *)
(***************************************************************************)
Commit(st, ev, h) ==
  LET next == [file |-> st.pos.file, off |-> ev.end]
      tx   == [now |-> st.pos, next |-> next, ts |-> ev.ts, changes |-> st.tran]
  IN IF h = "ok"
     THEN [st EXCEPT !.pos = next, !.delivered = Append(@, tx), !.accepted = Append(@, tx),
                     !.tran = <<>>, !.autocommit = TRUE]
     ELSE [Fail(st, "handler") EXCEPT !.delivered = Append(@, tx),
                     !.pos = IF "posBeforeHandler" \in Defects THEN next ELSE @]

RecvInvalid(st) == Fail(st, "invalid")

RecvFormatDescription(st) == [st EXCEPT !.format = TRUE]

RecvBeforeFormat(st, ev) == IF ev.k = "rotate" THEN st ELSE Fail(st, "real-before-format")

RecvXid(st, ev, h) == Commit(st, ev, h)

RecvRotate(st, ev) ==
  IF "rotateKeepsFile" \in Defects THEN [st EXCEPT !.pos.off = ev.rotpos]
  ELSE [st EXCEPT !.pos = [file |-> ev.rotfile, off |-> ev.rotpos]]

AppendChange(st, ch, ev, h) ==
  LET s1 == [st EXCEPT !.tran = Append(@, ch)]
  IN IF st.autocommit THEN Commit(s1, ev, h) ELSE s1

RecvQuery(st, ev, h) ==
  CASE ev.cat = "begin"    -> [st EXCEPT !.tran = <<>>, !.autocommit = FALSE]
    [] ev.cat = "commit"   -> Commit(st, ev, h)
    [] ev.cat = "rollback" -> Commit([st EXCEPT !.tran = IF "rollbackKeeps" \in Defects THEN @ ELSE <<>>], ev, h)
    [] ev.cat \in {"ddl", "dml"} -> AppendChange(st, ev, ev, h)
    [] OTHER -> st                                         \* unknown statement: ignored

\* m is what the table mapper answers for the announced table: ok | err | mismatch
\* the mapper is (at least) consulted when the id is new or now names another table
Consults(st, ev) ==
  IF ~HasTable(st, ev.tbl.id) THEN TRUE
  ELSE LET t == st.tables[TableOf(st, ev.tbl.id)].tbl IN t.db # ev.tbl.db \/ t.name # ev.tbl.name

RecvTableMap(st, ev, m) ==
  LET known   == HasTable(st, ev.tbl.id)
      consult == Consults(st, ev)
  IN IF known /\ "staleTable" \in Defects THEN st        \* keeps the first table forever
     ELSE IF consult /\ m = "err" THEN Fail(st, "mapper")
     ELSE IF consult /\ m = "mismatch"
          THEN [Fail(st, "mismatch") EXCEPT !.pos = IF "zeroPosOnMismatch" \in Defects THEN [file |-> ev.rotfile, off |-> ev.rotpos] ELSE @]   \* the zero Position
     ELSE [st EXCEPT !.tables = PutTable(st, ev.tbl.id, ev.tbl)]

RecvRows(st, ev, h) ==
  IF ~HasTable(st, ev.tbl.id) THEN Fail(st, "unknown-table")
  ELSE LET resolved == st.tables[TableOf(st, ev.tbl.id)].tbl
           ch       == [ev EXCEPT !.tbl = resolved]
       IN AppendChange(st, ch, ev, h)

RecvUnsupported(st) == Fail(st, "unsupported")

Ignorable == {"gtid", "anongtid", "prevgtids", "heartbeat", "unknown"}

(***************************************************************************)
(* One iteration of the dispatch loop.  h: handler result if this event    *)
(* commits; m: mapper answer if this event is a table map.                 *)
(***************************************************************************)
Step(st, ev, h, m) ==
  IF st.status # "run" THEN st
  ELSE IF ev.k = "invalid" THEN RecvInvalid(st)
  ELSE IF ev.k = "fde" THEN RecvFormatDescription(st)
  ELSE IF ~st.format THEN RecvBeforeFormat(st, ev)
  ELSE CASE ev.k = "xid" -> RecvXid(st, ev, h)
         [] ev.k = "rotate" -> RecvRotate(st, ev)
         [] ev.k = "query" -> RecvQuery(st, ev, h)
         [] ev.k = "tablemap" -> RecvTableMap(st, ev, m)
         [] IsRows(ev) -> RecvRows(st, ev, h)
         [] ev.k \in {"rand", "intvar", "rowsquery"} -> RecvUnsupported(st)
         [] OTHER -> st

\* fold over a packet sequence with an always-accepting handler and mapper
RECURSIVE Run(_, _)
Run(events, st) == IF events = <<>> THEN st ELSE Run(Tail(events), Step(st, Head(events), "ok", "ok"))

(***************************************************************************)
(* What a master serves for a dump at pos: fake ROTATE, FORMAT_DESCRIPTION,*)
(* then the events of the units from pos on; at each file switch the real  *)
(* ROTATE (part of the log) is followed by a fake ROTATE and the new       *)
(* file's FORMAT_DESCRIPTION.                                              *)
(***************************************************************************)
FakeRotate(file, off) == [k |-> "rotate", ts |-> "0", end |-> "0", cat |-> "none", rotfile |-> file, rotpos |-> off, fake |-> TRUE]
Fde == [k |-> "fde", ts |-> "0", end |-> "0", cat |-> "none", fake |-> TRUE]

RECURSIVE EventsOf(_)
EventsOf(units) ==
  IF units = <<>> THEN <<>>
  ELSE LET u == Head(units) IN
       u.evs \o (IF u.u = "rotate" THEN <<FakeRotate(u.evs[1].rotfile, u.evs[1].rotpos), Fde>> ELSE <<>>) \o EventsOf(Tail(units))

Served(files, pos) == <<FakeRotate(pos.file, pos.off), Fde>> \o EventsOf(UnitsFrom(files, pos))
=============================================================================
