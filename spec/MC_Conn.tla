------------------------------ MODULE MC_Conn ------------------------------
(***************************************************************************)
(* Goroutines, channels and termination of Stream()/Error()                *)
(* (streamer.go: Stream, Error, parseEvents; slave_connection.go).         *)
(* One action per blocking point / critical section of the code:           *)
(*                                                                         *)
(*  caller goroutine   Call -> Connect -> SendSet -> SendDump -> Spawn ->  *)
(*                     ParserSelect* -> (Handler) -> CloseDone ->          *)
(*                     CloseSocket -> Return (the deferred close)          *)
(*  reader goroutine   ReaderRead -> ReaderHandoff | ReaderSeesCtx |       *)
(*                     ReaderSeesDone -> exit (publishes its reason on     *)
(*                     errChan (capacity 1), closes errChan and eventChan) *)
(*  environment        Canceller (any time), master/network faults         *)
(*  observer           ErrorCall / ErrorRecv (Error() after a return)      *)
(*                                                                         *)
(* The master sends at most MaxPkts packets per connection over alphabet   *)
(*   "ev" (non-commit event) "commit" "bad" (undecodable / unsupported)    *)
(*   "EOF" "ERR"                                                           *)
(* (how many is chosen when the connection is made, what each one is when  *)
(* it is read - the same behaviours as choosing the sequence up front, but *)
(* nothing about the future is kept in the state, which is also what the   *)
(* trace specification Trace_Conn needs) and may break the connection at   *)
(* any time (Break).                                                       *)
(* Channels are per attempt (conn[a]); s.errChan / s.ctx are fields of the *)
(* Streamer that survive between attempts.                                 *)
(***************************************************************************)
EXTENDS Integers, Sequences, FiniteSets, TLC

CONSTANTS MaxPkts, MaxAttempts, MaxErrorCalls, Defects

Items == {"ev", "commit", "bad", "EOF", "ERR"}
Att == 1..MaxAttempts

VARIABLES
  att,        \* number of Stream calls so far (the current / last attempt)
  spc,        \* caller goroutine: idle connect set dump spawn select handler closing closeSock return
  net,        \* number of packets the master has still to send on the current connection
  sock,       \* [Att -> open | broken (by master/network) | closed (by client) | none]
  ctxDone,    \* [Att -> BOOLEAN] the attempt's context was cancelled
  rpc,        \* [Att -> none read handoff exit] reader goroutine of the attempt
  held,       \* [Att -> item or "none"] event the reader holds
  errBuf,     \* [Att -> Seq(reason)] errChan buffer (capacity 1)
  errClosed,  \* [Att -> BOOLEAN]
  evClosed,   \* [Att -> BOOLEAN] eventChan closed
  doneClosed, \* [Att -> BOOLEAN] slaveConnection.done closed (close() ran)
  sErrChan,   \* Streamer.errChan: 0 = nil, else the attempt whose channel it is
  result,     \* [Att -> none nil err] what Stream returned
  cause,      \* [Att -> why the parser stopped: none cancel closed handler decode connect]
  terminal,   \* [Att -> none EOF ERR transport cancel close] why the reader left
  pending,    \* [Att -> reason the reader is about to publish, or "none"]
  cancelledAtReturn, \* [Att -> BOOLEAN]
  hpc,        \* handler: idle | running   (called from within Stream only)
  epc,        \* Error() observer: idle | recv
  ecalls,     \* Error() calls made since the last return
  retRes, retWhy, \* what parseEvents returned (while Stream runs its deferred close)
  eres        \* result of the first Error() call after the last return: none nil err:<reason>

vars == <<att, spc, net, sock, ctxDone, rpc, held, errBuf, errClosed, evClosed, doneClosed, sErrChan,
          result, cause, terminal, pending, cancelledAtReturn, hpc, epc, ecalls, eres, retRes, retWhy>>

Init ==
  /\ att = 0 /\ spc = "idle" /\ net = 0 /\ sock = [a \in Att |-> "none"]
  /\ ctxDone = [a \in Att |-> FALSE]
  /\ rpc = [a \in Att |-> "none"] /\ held = [a \in Att |-> "none"]
  /\ errBuf = [a \in Att |-> <<>>] /\ errClosed = [a \in Att |-> FALSE]
  /\ evClosed = [a \in Att |-> FALSE] /\ doneClosed = [a \in Att |-> FALSE]
  /\ sErrChan = 0
  /\ result = [a \in Att |-> "none"] /\ cause = [a \in Att |-> "none"] /\ terminal = [a \in Att |-> "none"]
  /\ pending = [a \in Att |-> "none"]
  /\ cancelledAtReturn = [a \in Att |-> FALSE]
  /\ hpc = "idle" /\ epc = "idle" /\ ecalls = 0 /\ eres = "none" /\ retRes = "none" /\ retWhy = "none"

(***************************************************************************)
(* Caller goroutine.                                                       *)
(***************************************************************************)
Call ==   \* Stream(ctx, handler) is called (the previous call has returned; Error() is not in progress)
  /\ spc = "idle" /\ epc = "idle" /\ att < MaxAttempts
  /\ att' = att + 1
  /\ spc' = "connect"
  /\ sErrChan' = IF "noErrChanReset" \in Defects THEN sErrChan ELSE 0
  /\ ecalls' = 0 /\ eres' = "none"
  /\ UNCHANGED <<retRes, retWhy>>
  /\ UNCHANGED <<net, sock, ctxDone, rpc, held, errBuf, errClosed, evClosed, doneClosed, result, cause, terminal, pending, cancelledAtReturn, hpc, epc>>

ReturnWith(res, why) ==
  /\ result' = [result EXCEPT ![att] = res]
  /\ cause' = [cause EXCEPT ![att] = why]
  /\ cancelledAtReturn' = [cancelledAtReturn EXCEPT ![att] = ctxDone[att]]
  /\ spc' = "idle"

\* dial + handshake: success opens the socket and the master picks what it will send; failure returns an error
ConnectOkN(n) ==    \* n: how many packets the master will send on this connection
  /\ spc = "connect" /\ ~ctxDone[att]
  /\ net' = n
  /\ sock' = [sock EXCEPT ![att] = "open"] /\ spc' = "set"
  /\ UNCHANGED <<att, ctxDone, rpc, held, errBuf, errClosed, evClosed, doneClosed, sErrChan, result, cause, terminal, pending, cancelledAtReturn, hpc, epc, ecalls, eres, retRes, retWhy>>
ConnectOk == \E n \in 0..MaxPkts : ConnectOkN(n)
ConnectFail ==
  /\ spc = "connect"
  /\ ReturnWith("err", "connect")
  /\ UNCHANGED <<att, net, sock, ctxDone, rpc, held, errBuf, errClosed, evClosed, doneClosed, sErrChan, terminal, pending, hpc, epc, ecalls, eres, retRes, retWhy>>

\* SET @master_binlog_checksum: on failure newSlaveConnection closes the connection and Stream returns
SendSetOk ==
  /\ spc = "set" /\ sock[att] = "open" /\ spc' = "dump"
  /\ UNCHANGED <<att, net, sock, ctxDone, rpc, held, errBuf, errClosed, evClosed, doneClosed, sErrChan, result, cause, terminal, pending, cancelledAtReturn, hpc, epc, ecalls, eres, retRes, retWhy>>
SendSetFail ==
  /\ spc = "set"
  /\ sock' = [sock EXCEPT ![att] = "closed"] /\ doneClosed' = [doneClosed EXCEPT ![att] = TRUE]
  /\ ReturnWith("err", "connect")
  /\ UNCHANGED <<att, net, ctxDone, rpc, held, errBuf, errClosed, evClosed, sErrChan, terminal, pending, hpc, epc, ecalls, eres, retRes, retWhy>>

\* COM_BINLOG_DUMP: on failure Stream returns (deferred close)
SendDumpOk ==
  /\ spc = "dump" /\ sock[att] = "open" /\ spc' = "spawn"
  /\ UNCHANGED <<att, net, sock, ctxDone, rpc, held, errBuf, errClosed, evClosed, doneClosed, sErrChan, result, cause, terminal, pending, cancelledAtReturn, hpc, epc, ecalls, eres, retRes, retWhy>>
SendDumpFail ==
  /\ spc = "dump"
  /\ sock' = [sock EXCEPT ![att] = "closed"] /\ doneClosed' = [doneClosed EXCEPT ![att] = TRUE]
  /\ ReturnWith("err", "connect")
  /\ UNCHANGED <<att, net, ctxDone, rpc, held, errBuf, errClosed, evClosed, sErrChan, terminal, pending, hpc, epc, ecalls, eres, retRes, retWhy>>

\* the reader goroutine is started and s.errChan = conn.errChan
Spawn ==
  /\ spc = "spawn"
  /\ rpc' = [rpc EXCEPT ![att] = "read"]
  /\ sErrChan' = att
  /\ spc' = "select"
  /\ UNCHANGED <<att, net, sock, ctxDone, held, errBuf, errClosed, evClosed, doneClosed, result, cause, terminal, pending, cancelledAtReturn, hpc, epc, ecalls, eres, retRes, retWhy>>

\* parseEvents returned (res, why): Stream is about to run its deferred conn.close() (CloseDone, CloseSocket) and return
CloseAndReturn(res, why) ==
  /\ spc' = "closing"
  /\ retRes' = res /\ retWhy' = why

\* deferred conn.close() and the return, in the three steps of the code: close(done) (lets a reader parked on the
\* hand-off leave), dc.Close() (closes the socket, which unblocks a reader inside ReadPacket), return
CloseDone ==
  /\ spc = "closing"
  /\ doneClosed' = [doneClosed EXCEPT ![att] = TRUE]
  /\ spc' = "closeSock"
  /\ UNCHANGED <<att, net, sock, ctxDone, rpc, held, errBuf, errClosed, evClosed, sErrChan, result, cause, terminal, pending, cancelledAtReturn, hpc, epc, ecalls, eres, retRes, retWhy>>
CloseSocket ==
  /\ spc = "closeSock"
  /\ sock' = IF "noDeferredClose" \in Defects THEN sock ELSE [sock EXCEPT ![att] = "closed"]
  /\ spc' = "return"
  /\ UNCHANGED <<att, net, ctxDone, rpc, held, errBuf, errClosed, evClosed, doneClosed, sErrChan, result, cause, terminal, pending, cancelledAtReturn, hpc, epc, ecalls, eres, retRes, retWhy>>
Return ==
  /\ spc = "return"
  /\ ReturnWith(retRes, retWhy)
  /\ UNCHANGED <<att, net, sock, ctxDone, rpc, held, errBuf, errClosed, evClosed, doneClosed, sErrChan, terminal, pending, hpc, epc, ecalls, eres, retRes, retWhy>>

\* select: case ev, ok = <-events  (rendezvous with the reader's hand-off)
ParserTakesEvent ==
  /\ spc = "select" /\ rpc[att] = "handoff"
  /\ LET e == held[att] IN
       /\ held' = [held EXCEPT ![att] = "none"]
       /\ rpc' = [rpc EXCEPT ![att] = "read"]
       /\ IF e = "commit" THEN spc' = "handler" /\ hpc' = "running" /\ UNCHANGED <<retRes, retWhy>>
          ELSE IF e = "bad" THEN CloseAndReturn("err", "decode") /\ UNCHANGED hpc
          ELSE UNCHANGED <<spc, hpc, retRes, retWhy>>
  /\ UNCHANGED <<att, net, sock, ctxDone, errBuf, errClosed, evClosed, doneClosed, sErrChan, result, cause, terminal, pending, cancelledAtReturn, epc, ecalls, eres>>

\* select: events channel closed -> return pos, nil
ParserSeesClosed ==
  /\ spc = "select" /\ evClosed[att]
  /\ CloseAndReturn("nil", "closed")
  /\ UNCHANGED <<att, net, sock, ctxDone, rpc, held, errBuf, errClosed, evClosed, doneClosed, sErrChan, result, cause, terminal, pending, cancelledAtReturn, hpc, epc, ecalls, eres>>

\* select: case <-ctx.Done() -> return pos, nil
ParserSeesCtx ==
  /\ spc = "select" /\ ctxDone[att]
  /\ CloseAndReturn("nil", "cancel")
  /\ UNCHANGED <<att, net, sock, ctxDone, rpc, held, errBuf, errClosed, evClosed, doneClosed, sErrChan, result, cause, terminal, pending, cancelledAtReturn, hpc, epc, ecalls, eres>>

\* the handler returns nil: back to the loop; or an error: Stream returns it
HandlerOk ==
  /\ spc = "handler" /\ hpc = "running"
  /\ hpc' = "idle" /\ spc' = "select"
  /\ UNCHANGED <<att, net, sock, ctxDone, rpc, held, errBuf, errClosed, evClosed, doneClosed, sErrChan, result, cause, terminal, pending, cancelledAtReturn, epc, ecalls, eres, retRes, retWhy>>
HandlerErr ==
  /\ spc = "handler" /\ hpc = "running"
  /\ hpc' = "idle"
  /\ CloseAndReturn("err", "handler")
  /\ UNCHANGED <<att, net, sock, ctxDone, rpc, held, errBuf, errClosed, evClosed, doneClosed, sErrChan, result, cause, terminal, pending, cancelledAtReturn, epc, ecalls, eres>>

(***************************************************************************)
(* Reader goroutine of attempt a.                                          *)
(***************************************************************************)
\* The reader leaves in three separately scheduled steps, in the order of the code:
\*   s.errChan <- reason   (ReaderPublish; skipped when it leaves because the connection was closed)
\*   close(s.errChan)      (ReaderCloseErr)
\*   close(eventChan)      (ReaderCloseEv, the deferred call)
\* Defect "closeEventsFirst" re-orders them: close(eventChan) first.
ReaderExit(a, reason, publish) ==
  /\ terminal' = [terminal EXCEPT ![a] = reason]
  /\ pending' = [pending EXCEPT ![a] = IF publish THEN reason ELSE "none"]
  /\ rpc' = [rpc EXCEPT ![a] = IF "closeEventsFirst" \in Defects THEN "closeEv" ELSE "pub"]
  /\ UNCHANGED <<errBuf, errClosed, evClosed>>

ReaderPublish(a) ==
  /\ rpc[a] = "pub"
  /\ errBuf' = [errBuf EXCEPT ![a] = IF pending[a] # "none" THEN Append(@, pending[a]) ELSE @]
  /\ rpc' = [rpc EXCEPT ![a] = "closeErr"]
  /\ UNCHANGED <<att, spc, net, sock, ctxDone, held, errClosed, evClosed, doneClosed, sErrChan, result, cause, terminal, cancelledAtReturn, hpc, epc, ecalls, eres, retRes, retWhy, pending>>
ReaderCloseErr(a) ==
  /\ rpc[a] = "closeErr"
  /\ errClosed' = [errClosed EXCEPT ![a] = TRUE]
  /\ rpc' = [rpc EXCEPT ![a] = IF "closeEventsFirst" \in Defects THEN "exit" ELSE "closeEv"]
  /\ UNCHANGED <<att, spc, net, sock, ctxDone, held, errBuf, evClosed, doneClosed, sErrChan, result, cause, terminal, cancelledAtReturn, hpc, epc, ecalls, eres, retRes, retWhy, pending>>
ReaderCloseEv(a) ==
  /\ rpc[a] = "closeEv"
  /\ evClosed' = [evClosed EXCEPT ![a] = TRUE]
  /\ rpc' = [rpc EXCEPT ![a] = IF "closeEventsFirst" \in Defects THEN "pub" ELSE "exit"]
  /\ UNCHANGED <<att, spc, net, sock, ctxDone, held, errBuf, errClosed, doneClosed, sErrChan, result, cause, terminal, cancelledAtReturn, hpc, epc, ecalls, eres, retRes, retWhy, pending>>

\* ReadPacket returns: a packet (the driver reads ahead into its buffer, so packets that arrived before the
\* connection broke or was closed are still returned afterwards), or an error when the connection is broken or closed
ReaderRead(a) ==
  /\ rpc[a] = "read"
  /\ \/ /\ a = att /\ sock[a] # "none" /\ net > 0      \* also after the connection broke / was closed: data already received is still read
        /\ net' = net - 1
        /\ \E it \in Items :
             IF it \in {"EOF", "ERR"}
             THEN ReaderExit(a, it, TRUE) /\ UNCHANGED held
             ELSE /\ held' = [held EXCEPT ![a] = it]
                  /\ rpc' = [rpc EXCEPT ![a] = "handoff"]
                  /\ UNCHANGED <<errBuf, errClosed, evClosed, terminal, pending>>
     \/ /\ sock[a] \in {"broken", "closed"}
        /\ ReaderExit(a, IF sock[a] = "broken" THEN "transport" ELSE "close", TRUE)
        /\ UNCHANGED <<net, held>>
  /\ UNCHANGED <<att, spc, sock, ctxDone, doneClosed, sErrChan, result, cause, cancelledAtReturn, hpc, epc, ecalls, eres, retRes, retWhy>>

\* select at the hand-off: case <-ctx.Done()
ReaderSeesCtx(a) ==
  /\ rpc[a] = "handoff" /\ ctxDone[a]
  /\ ReaderExit(a, "cancel", TRUE)
  /\ UNCHANGED <<att, spc, net, sock, ctxDone, held, doneClosed, sErrChan, result, cause, cancelledAtReturn, hpc, epc, ecalls, eres, retRes, retWhy>>

\* select at the hand-off: case <-s.done   (the connection was closed by Stream's deferred close)
ReaderSeesDone(a) ==
  /\ rpc[a] = "handoff" /\ doneClosed[a] /\ "readerIgnoresClose" \notin Defects
  /\ ReaderExit(a, "close", FALSE)
  /\ UNCHANGED <<att, spc, net, sock, ctxDone, held, doneClosed, sErrChan, result, cause, cancelledAtReturn, hpc, epc, ecalls, eres, retRes, retWhy>>

(***************************************************************************)
(* Environment.                                                            *)
(***************************************************************************)
Cancel ==   \* the caller cancels the context of the current attempt (also after Stream returned)
  /\ att > 0 /\ ~ctxDone[att]
  /\ ctxDone' = [ctxDone EXCEPT ![att] = TRUE]
  /\ UNCHANGED <<att, spc, net, sock, rpc, held, errBuf, errClosed, evClosed, doneClosed, sErrChan, result, cause, terminal, pending, cancelledAtReturn, hpc, epc, ecalls, eres, retRes, retWhy>>

Break ==    \* the master / network drops the connection (close, reset, short packet, bad sequence id)
  /\ att > 0 /\ sock[att] = "open"
  /\ sock' = [sock EXCEPT ![att] = "broken"]
  /\ UNCHANGED <<att, spc, net, ctxDone, rpc, held, errBuf, errClosed, evClosed, doneClosed, sErrChan, result, cause, terminal, pending, cancelledAtReturn, hpc, epc, ecalls, eres, retRes, retWhy>>

(***************************************************************************)
(* Error().                                                                *)
(***************************************************************************)
ErrorCall ==
  /\ spc = "idle" /\ att > 0 /\ epc = "idle" /\ ecalls < MaxErrorCalls
  /\ ecalls' = ecalls + 1
  /\ IF sErrChan = 0 /\ "errChanNil" \notin Defects
     THEN epc' = "idle" /\ eres' = IF ecalls = 0 THEN "nil" ELSE eres
     ELSE epc' = "recv" /\ UNCHANGED eres
  /\ UNCHANGED <<retRes, retWhy>>
  /\ UNCHANGED <<att, spc, net, sock, ctxDone, rpc, held, errBuf, errClosed, evClosed, doneClosed, sErrChan, result, cause, terminal, pending, cancelledAtReturn, hpc>>

\* case err, ok := <-s.errChan
ErrorRecv ==
  /\ epc = "recv" /\ sErrChan # 0
  /\ LET c == sErrChan IN
     \/ /\ errBuf[c] # <<>>
        /\ errBuf' = [errBuf EXCEPT ![c] = Tail(@)]
        /\ LET r == Head(errBuf[c])
               \* the code consults s.ctx.Err() when Error() is called; the repaired rule is "cancelled when Stream returned"
               canc == IF "ctxAtErrorTime" \in Defects THEN ctxDone[att] ELSE cancelledAtReturn[att]
               v == IF canc \/ r \in {"cancel", "EOF"} THEN "nil" ELSE "err"
           IN eres' = IF ecalls = 1 THEN v ELSE eres
     \/ /\ errBuf[c] = <<>> /\ (errClosed[c] \/ "errorNonBlocking" \in Defects)     \* defect: a `default:` case in Error()
        /\ eres' = IF ecalls = 1 THEN "nil" ELSE eres
        /\ UNCHANGED errBuf
  /\ epc' = "idle"
  /\ UNCHANGED <<retRes, retWhy>>
  /\ UNCHANGED <<att, spc, net, sock, ctxDone, rpc, held, errClosed, evClosed, doneClosed, sErrChan, result, cause, terminal, pending, cancelledAtReturn, hpc, ecalls>>

Next ==
  \/ Call \/ ConnectOk \/ ConnectFail \/ SendSetOk \/ SendSetFail \/ SendDumpOk \/ SendDumpFail \/ Spawn
  \/ ParserTakesEvent \/ ParserSeesClosed \/ ParserSeesCtx \/ HandlerOk \/ HandlerErr \/ CloseDone \/ CloseSocket \/ Return
  \/ \E a \in Att : ReaderRead(a) \/ ReaderSeesCtx(a) \/ ReaderSeesDone(a) \/ ReaderPublish(a) \/ ReaderCloseErr(a) \/ ReaderCloseEv(a)
  \/ Cancel \/ Break \/ ErrorCall \/ ErrorRecv

\* library steps and the handler's return are fair; the environment (Call, Cancel, Break, ErrorCall, connect
\* outcomes) is not obliged to act
LibFair ==
  /\ WF_vars(ConnectOk \/ ConnectFail) /\ WF_vars(SendSetOk \/ SendSetFail) /\ WF_vars(SendDumpOk \/ SendDumpFail)
  /\ WF_vars(Spawn) /\ WF_vars(ParserTakesEvent) /\ WF_vars(ParserSeesClosed) /\ WF_vars(ParserSeesCtx)
  /\ WF_vars(HandlerOk \/ HandlerErr) /\ WF_vars(ErrorRecv) /\ WF_vars(CloseDone) /\ WF_vars(CloseSocket) /\ WF_vars(Return)
  /\ \A a \in Att : WF_vars(ReaderRead(a)) /\ WF_vars(ReaderSeesCtx(a)) /\ WF_vars(ReaderSeesDone(a))
                    /\ WF_vars(ReaderPublish(a)) /\ WF_vars(ReaderCloseErr(a)) /\ WF_vars(ReaderCloseEv(a))

Spec == Init /\ [][Next]_vars /\ LibFair

(***************************************************************************)
(* Properties.                                                             *)
(***************************************************************************)
Running == spc \notin {"idle"}
\* something obliges the current attempt to end
StopCause ==
  /\ Running
  /\ \/ ctxDone[att] \/ sock[att] \in {"broken", "closed"}
     \/ (att > 0 /\ (evClosed[att] \/ terminal[att] # "none"))

\* C05: Stream returns after every stop cause
StreamTerminates == StopCause ~> (spc = "idle")

\* C05: after it returned, the reader goroutine is gone and the connection closed
Returned(a) == result[a] # "none"
NothingLeftBehind == \A a \in Att : (Returned(a) /\ rpc[a] # "none") ~> (rpc[a] = "exit")
ConnectionClosed == \A a \in Att : Returned(a) => sock[a] \in {"closed", "none"}

\* C05: Error() always returns
ErrorNeverBlocks == (epc = "recv") ~> (epc = "idle")

\* C05: the handler only runs inside Stream, one call at a time
HandlerDiscipline == hpc = "running" => spc = "handler"

\* C06: failures are returned by Stream; a nil/nil outcome means cancellation or the master's EOF
ReasonReported ==
  /\ \A a \in Att : cause[a] \in {"handler", "decode", "connect"} => result[a] = "err"
  /\ (att > 0 /\ spc = "idle" /\ result[att] = "nil" /\ eres = "nil") =>
        (cancelledAtReturn[att] \/ terminal[att] \in {"EOF", "cancel"})

\* The pinned code consults the context when Error() is CALLED (Defects = {"ctxAtErrorTime"}); a context cancelled
\* after Stream returned then hides the reason (known finding C06-late-cancel). This is ReasonReported for every
\* other schedule.
LateCancel == att > 0 /\ ctxDone[att] /\ ~cancelledAtReturn[att]
ReasonReportedExceptLateCancel ==
  /\ \A a \in Att : cause[a] \in {"handler", "decode", "connect"} => result[a] = "err"
  /\ (att > 0 /\ spc = "idle" /\ result[att] = "nil" /\ eres = "nil" /\ ~LateCancel) =>
        (cancelledAtReturn[att] \/ terminal[att] \in {"EOF", "cancel"})

\* C06: what the reader published is never lost before the first Error() call: a nil result with an ERR/transport
\* reason is impossible unless the attempt was cancelled
NeverSwallowed ==
  (att > 0 /\ spc = "idle" /\ result[att] = "nil" /\ eres = "nil" /\ terminal[att] \in {"ERR", "transport"}) => cancelledAtReturn[att]
=============================================================================
