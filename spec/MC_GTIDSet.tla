----------------------------- MODULE MC_GTIDSet -----------------------------
(***************************************************************************)
(* Exhaustive check of the operational GTID-set operators against the      *)
(* set-theoretic meaning: every set over U server ids and sequence numbers *)
(* 1..W (in canonical form), every GTID to add, every pair of sets.        *)
(***************************************************************************)
EXTENDS GTIDSet

CONSTANTS U, W

Universe == (1..U) \X (1..W)

\* canonical representation of a set of <<sid, n>> pairs: maximal runs, sids ascending
RunsOf(M) ==
  LET starts == {n \in M : (n - 1) \notin M}
      endOf(s) == CHOOSE e \in M : e >= s /\ (\A k \in s..e : k \in M) /\ (e + 1) \notin M
  IN [i \in 1..Cardinality(starts) |->
        LET s == SetToSortSeq(starts, <)[i] IN [s |-> s, e |-> endOf(s)]]
RepOf(S) ==
  LET sids == {p[1] : p \in S}
      sorted == SetToSortSeq(sids, <)
  IN [i \in 1..Len(sorted) |-> [sid |-> sorted[i], ivs |-> RunsOf({p[2] : p \in {q \in S : q[1] = sorted[i]}})]]

AllReps == {RepOf(S) : S \in SUBSET Universe}

VARIABLES rep, other
Init == rep \in AllReps /\ other \in AllReps
Next == \E g \in Universe : rep' = AddOp(rep, g[1], g[2]) /\ UNCHANGED other
Spec == Init /\ [][Next]_<<rep, other>>

RepIsCanon == Canon(rep) /\ Abs(RepOf(Abs(rep))) = Abs(rep)
AddIsUnion ==
  \A g \in Universe :
    LET r2 == AddOp(rep, g[1], g[2]) IN
      /\ Abs(r2) = Abs(rep) \cup {g}
      /\ Canon(r2)
      /\ r2 = NormalAdd(rep, g[1], g[2])
MembershipAgrees == \A g \in Universe : ContainsGtidOp(rep, g[1], g[2]) = (g \in Abs(rep))
SupersetAgrees == ContainsOp(rep, other) = (Abs(other) \subseteq Abs(rep)) /\ SubsetRep(other, rep) = (Abs(other) \subseteq Abs(rep))
EqualityAgrees == EqualOp(rep, other) = (Abs(rep) = Abs(other))
=============================================================================
