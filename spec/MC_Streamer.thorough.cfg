SPECIFICATION Spec
CONSTANTS
  Defects = {}
  MaxUnits = 3
  MaxStmts = 1
  WithInvalid = TRUE
INVARIANTS Refines TableAttribution LabelsChain ResumeExact PosIsBoundary
PROPERTIES OnlyAtCommit GateFirst
CHECK_DEADLOCK FALSE
