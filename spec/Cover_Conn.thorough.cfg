SPECIFICATION CSpec
CONSTANTS
  MaxPkts = 2
  CrossOnly = FALSE
  MaxAttempts = 1
  MaxErrorCalls = 1
  Defects = {"ctxAtErrorTime"}
VIEW StateView
ACTION_CONSTRAINT EdgeEmit
CHECK_DEADLOCK FALSE
