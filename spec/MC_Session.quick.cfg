SPECIFICATION Spec
CONSTANTS
  Defects = {}
  MaxUnits = 2
  MaxStmts = 1
  WithInvalid = FALSE
  MaxAttempts = 3
  MaxFailed = 2
INVARIANTS ExactlyOnce Complete ResumeIsBoundaryAfterAccepted HandshakeExact
PROPERTIES NoPartialOnInvalid
CHECK_DEADLOCK FALSE
