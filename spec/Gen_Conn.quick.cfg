SPECIFICATION GSpec
CONSTANTS
  MaxPkts = 3
  MaxAttempts = 1
  MaxErrorCalls = 2
  Defects = {"ctxAtErrorTime"}
  Depth = 60
INVARIANT Emit
CHECK_DEADLOCK FALSE
