----------------------------- MODULE MC_Buffers -----------------------------
(***************************************************************************)
(* Memory regions behind delivered values (property C08).  The driver      *)
(* re-uses ONE receive buffer for every packet; readBinlogEvent copies the *)
(* packet into a private region per event; decoded values are either       *)
(* sub-slices of that private region (strings, blobs) or fresh regions     *)
(* (formatted numbers); a few values could be shared constants (the zero   *)
(* timestamp).  A delivered value is a reference [region, lo, hi].         *)
(* Actions: a packet arrives, is copied, values are delivered; the handler *)
(* may scribble over any value it was given; anything may be re-read.      *)
(* Invariant Stable: dereferencing a delivered value yields its content at *)
(* delivery time, modified only by scribbles on that same value.           *)
(***************************************************************************)
EXTENDS Integers, Sequences, FiniteSets, TLC

CONSTANTS MaxPackets, Defects

PktLen == 2                     \* two cells per packet
Cells == 1..PktLen
Patterns == {90, 91}            \* what a handler writes
Data(p, i) == 10 * p + i        \* content of cell i of packet p (distinct everywhere)
ZeroConst == 0                  \* content of the shared zero-timestamp constant

VARIABLES
  recv,      \* the driver's receive buffer: [Cells -> content]
  npk,       \* packets arrived so far
  mem,       \* private regions: region id -> [Cells -> content]
  const,     \* the shared constant region (one cell)
  values,    \* delivered values: sequence of [reg (0 = recv buffer, -1 = const, else private id), idx, want]
  nextReg

bvars == <<recv, npk, mem, const, values, nextReg>>

Init ==
  /\ recv = [i \in Cells |-> 0] /\ npk = 0 /\ mem = <<>> /\ const = ZeroConst /\ values = <<>> /\ nextReg = 1

Deref(v) == IF v.reg = 0 THEN recv[v.idx] ELSE IF v.reg = -1 THEN const ELSE mem[v.reg][v.idx]

\* a packet arrives (overwrites the receive buffer), is copied into a private region, and its cells are delivered;
\* cell 1 may be a zero timestamp, delivered from the shared constant when the code does not copy it
Arrive(zero) ==
  /\ npk < MaxPackets
  /\ npk' = npk + 1
  /\ recv' = [i \in Cells |-> Data(npk + 1, i)]
  /\ LET p == npk + 1
         region == [i \in Cells |-> IF zero /\ i = 1 THEN ZeroConst ELSE Data(p, i)]
         reg == IF "noEventCopy" \in Defects THEN 0 ELSE nextReg
         v(i) == IF zero /\ i = 1 /\ "sharedZeroTimestamp" \in Defects
                 THEN [reg |-> -1, idx |-> 1, want |-> ZeroConst]
                 ELSE [reg |-> reg, idx |-> i, want |-> region[i]]
     IN /\ mem' = IF "noEventCopy" \in Defects THEN mem ELSE Append(mem, region)
        /\ nextReg' = IF "noEventCopy" \in Defects THEN nextReg ELSE nextReg + 1
        /\ values' = values \o [i \in Cells |-> v(i)]
  /\ UNCHANGED const

\* the handler overwrites value k with pattern pat: that value (and only that value) now reads pat
Scribble(k, pat) ==
  /\ k \in 1..Len(values)
  /\ LET v == values[k] IN
       /\ IF v.reg = 0 THEN recv' = [recv EXCEPT ![v.idx] = pat] /\ UNCHANGED <<mem, const>>
          ELSE IF v.reg = -1 THEN const' = pat /\ UNCHANGED <<mem, recv>>
          ELSE mem' = [mem EXCEPT ![v.reg][v.idx] = pat] /\ UNCHANGED <<recv, const>>
       /\ values' = [values EXCEPT ![k].want = pat]
  /\ UNCHANGED <<npk, nextReg>>

Next == (\E z \in BOOLEAN : Arrive(z)) \/ (\E k \in 1..Len(values), pat \in Patterns : Scribble(k, pat))
Spec == Init /\ [][Next]_bvars

\* C08
Stable == \A k \in 1..Len(values) : Deref(values[k]) = values[k].want
=============================================================================
