------------------------------ MODULE Gen_Units ------------------------------
(***************************************************************************)
(* Scenario generator for the stream family: every sequence of at most N   *)
(* units over the 13-unit alphabet of property C02.  TLC enumerates the    *)
(* sequences as a state space (one state per sequence); the invariant Emit *)
(* prints each as one JSON line, which the harness concretises (tables,    *)
(* statements, rows, cell values, wire configuration) and runs against the *)
(* real Stream().                                                          *)
(***************************************************************************)
EXTENDS Naturals, Sequences, TLC, Json

CONSTANT N

Kinds == {"txxid", "txcommit", "txrollback", "ddl", "autorow", "stmtdml", "rotate",
          "gtid", "anongtid", "prevgtids", "heartbeat", "unknownev", "unknownstmt"}

VARIABLE units

Init == units = <<>>
Next == Len(units) < N /\ \E k \in Kinds : units' = Append(units, k)
Spec == Init /\ [][Next]_units

Emit == PrintT(ToJson([units |-> units]))
=============================================================================
