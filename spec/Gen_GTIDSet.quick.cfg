SPECIFICATION Spec
CONSTANTS
  U = 2
  W = 4
INVARIANT Emit
CHECK_DEADLOCK FALSE
