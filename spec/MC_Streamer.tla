---------------------------- MODULE MC_Streamer ----------------------------
(***************************************************************************)
(* Exhaustive model checking of the parser model against the declarative   *)
(* binlog semantics: a master emits every sequence of at most MaxUnits     *)
(* units over the alphabet of property C02 (transactions closed by XID /   *)
(* COMMIT / ROLLBACK with up to MaxStmts statements, DDL, autocommitted    *)
(* row change, statement DML, rotation, and the ignorable events), the     *)
(* parser consumes them one event at a time.                               *)
(* Properties: C01 Refines, C02 OnlyAtCommit, C03 LabelsChain/ResumeExact, *)
(* C15 TableAttribution, C17 GateFirst.                                    *)
(***************************************************************************)
EXTENDS Streamer

CONSTANTS MaxUnits, MaxStmts, WithInvalid

VARIABLES st, queue, files, off, nunits, lastEv, lastWasUnitEnd, lastUnitKind

vars == <<st, queue, files, off, nunits, lastEv, lastWasUnitEnd, lastUnitKind>>

\* three tables; TC re-uses TA's table id for a different table (ids are re-used after a master restart)
TA == [id |-> 1, db |-> "d", name |-> "a", cols |-> 2]
TB == [id |-> 2, db |-> "d", name |-> "b", cols |-> 3]
TC == [id |-> 1, db |-> "e", name |-> "c", cols |-> 1]
Tables == {TA, TB, TC}

E(k, cat, tbl) == [k |-> k, cat |-> cat, tbl |-> tbl, gt |-> tbl, ts |-> 0, end |-> 0, rotfile |-> "none", rotpos |-> 0, fake |-> FALSE]
None == [id |-> 0, db |-> "", name |-> "", cols |-> 0]

Stmts == {<<k, t>> : k \in {"write", "update", "delete"}, t \in Tables} \cup {<<"q", None>>, <<"ig", None>>}
StmtEvents(s) ==
  IF s[1] = "q" THEN <<E("query", "dml", None)>>
  ELSE IF s[1] = "ig" THEN <<E("unknown", "none", None)>>
  ELSE <<E("tablemap", "none", s[2]), E(s[1], "none", s[2])>>

Bodies == UNION {[1..n -> Stmts] : n \in 0..MaxStmts}
RECURSIVE BodyEvents(_)
BodyEvents(b) == IF b = <<>> THEN <<>> ELSE StmtEvents(Head(b)) \o BodyEvents(Tail(b))

Ignorables == {"gtid", "anongtid", "prevgtids", "heartbeat", "unknown", "unknownstmt"}

UnitDescs ==
  {[u |-> k, body |-> b] : k \in {"txxid", "txcommit", "txrollback"}, b \in Bodies} \cup
  {[u |-> "ddl", body |-> <<>>], [u |-> "stmtdml", body |-> <<>>], [u |-> "rotate", body |-> <<>>]} \cup
  {[u |-> "autorow", body |-> <<s>>] : s \in {x \in Stmts : x[1] \in {"write", "update", "delete"}}} \cup
  {[u |-> "ign", body |-> <<<<i, None>>>>] : i \in Ignorables} \cup
  (IF WithInvalid THEN {[u |-> "invalid", body |-> <<>>]} ELSE {})

UnitEvents(d) ==
  CASE d.u = "txxid"      -> <<E("query", "begin", None)>> \o BodyEvents(d.body) \o <<E("xid", "none", None)>>
    [] d.u = "txcommit"   -> <<E("query", "begin", None)>> \o BodyEvents(d.body) \o <<E("query", "commit", None)>>
    [] d.u = "txrollback" -> <<E("query", "begin", None)>> \o BodyEvents(d.body) \o <<E("query", "rollback", None)>>
    [] d.u = "ddl"        -> <<E("query", "ddl", None)>>
    [] d.u = "stmtdml"    -> <<E("query", "dml", None)>>
    [] d.u = "autorow"    -> StmtEvents(d.body[1])
    [] d.u = "rotate"     -> <<E("rotate", "none", None)>>
    [] d.u = "invalid"    -> <<E("invalid", "none", None)>>
    [] d.u = "ign"        -> IF d.body[1][1] = "unknownstmt" THEN <<E("query", "unknown", None)>>
                             ELSE <<E(d.body[1][1], "none", None)>>

\* offsets: every event is 10 bytes long; a heartbeat is artificial and occupies no space
RECURSIVE Layout(_, _)
Layout(evs, o) ==
  IF evs = <<>> THEN <<>>
  ELSE LET e == Head(evs)
           n == IF e.k = "heartbeat" THEN o ELSE o + 10
       IN <<[e EXCEPT !.end = n, !.ts = n + 1000]>> \o Layout(Tail(evs), n)

FileName(i) == i      \* file names are numbers in the model
Start == [file |-> FileName(1), off |-> 4]

Init ==
  /\ st = StInit(Start)
  /\ queue = <<FakeRotate(Start.file, Start.off), Fde>>
  /\ files = <<[name |-> FileName(1), first |-> 4, units |-> <<>>]>>
  /\ off = 4
  /\ nunits = 0
  /\ lastEv = Fde
  /\ lastWasUnitEnd = FALSE
  /\ lastUnitKind = "none"

CurFile == files[Len(files)]

Produce(d) ==
  /\ queue = <<>>
  /\ st.status = "run"
  /\ nunits < MaxUnits
  /\ LET evs0 == Layout(UnitEvents(d), off)
         nf   == Len(files) + 1
         evs  == IF d.u = "rotate" THEN <<[evs0[1] EXCEPT !.rotfile = FileName(nf), !.rotpos = 4]>> ELSE evs0
         unit == [u |-> d.u, evs |-> evs]
         f1   == [files EXCEPT ![Len(files)].units = Append(@, unit)]
     IN /\ files' = IF d.u = "rotate" THEN Append(f1, [name |-> FileName(nf), first |-> 4, units |-> <<>>]) ELSE f1
        /\ off' = IF d.u = "rotate" THEN 4 ELSE evs[Len(evs)].end
        /\ queue' = evs \o (IF d.u = "rotate" THEN <<FakeRotate(FileName(nf), 4), Fde>> ELSE <<>>)
  /\ nunits' = nunits + 1
  /\ UNCHANGED <<st, lastEv, lastWasUnitEnd, lastUnitKind>>

Units == AllUnits(files)

Consume ==
  /\ queue # <<>>
  /\ st.status = "run"
  /\ st' = Step(st, Head(queue), "ok", "ok")
  /\ queue' = Tail(queue)
  /\ lastEv' = Head(queue)
  /\ LET u == Units[Len(Units)] IN
       /\ lastWasUnitEnd' = (nunits > 0 /\ Head(queue) = u.evs[Len(u.evs)])
       /\ lastUnitKind' = IF nunits > 0 THEN u.u ELSE "none"
  /\ UNCHANGED <<files, off, nunits>>

Next == (\E d \in UnitDescs : Produce(d)) \/ Consume

Spec == Init /\ [][Next]_vars

(***************************************************************************)
(* Properties.                                                             *)
(***************************************************************************)
\* units completely consumed so far
Done == IF queue = <<>> \/ nunits = 0 THEN Units
        ELSE IF \E i \in 1..Len(queue) : queue[i] = Units[Len(Units)].evs[Len(Units[Len(Units)].evs)]
             THEN Sub(Units, 1, Len(Units) - 1) ELSE Units

\* C01 / C02: at every state the handler has seen exactly the committed transactions of what was consumed
Refines == st.status = "run" => st.delivered = Committed(Done, Start)

\* C15: every delivered row change is attributed to the table announced for its id by the latest table map
\* (the ground-truth table is the one the master wrote the event for)
TableAttribution ==
  \A i \in 1..Len(st.delivered) : \A j \in 1..Len(st.delivered[i].changes) :
     LET c == st.delivered[i].changes[j] IN IsRows(c) => c.tbl = c.gt

\* C02 (action property): the handler is called only when the commit event of a unit is consumed,
\* at most once per event, and what was delivered is never changed afterwards
OnlyAtCommit ==
  [][ /\ IsPrefix(st.delivered, st'.delivered)
      /\ Len(st'.delivered) <= Len(st.delivered) + 1
      /\ (st'.delivered # st.delivered => (lastWasUnitEnd' /\ lastUnitKind' \in TxUnits)) ]_vars

\* C03: labels chain
LabelsChain ==
  \A k \in 1..Len(st.delivered) :
     LET t == st.delivered[k] IN
       /\ t.next.file = t.now.file
       /\ \/ t.now = (IF k = 1 THEN Start ELSE st.delivered[k - 1].next)
          \/ \E i \in 1..Len(Units) : Units[i].u = "rotate" /\ t.now = [file |-> Units[i].evs[1].rotfile, off |-> Units[i].evs[1].rotpos]

\* C03: every end label is an exact resume point (checked when the master is done)
ResumeExact ==
  (queue = <<>> /\ st.status = "run") =>
     \A k \in 1..Len(st.delivered) :
        LET p == st.delivered[k].next
            r == Run(Served(files, p), StInit(p))
        IN r.status = "run" /\ r.delivered = Sub(st.delivered, k + 1, Len(st.delivered))

\* C17 (action property): an invalid event ends the run with an error, delivering nothing and keeping the position
GateFirst ==
  [][ lastEv'.k = "invalid" /\ lastEv' # lastEv =>
        st'.status = "error" /\ st'.delivered = st.delivered /\ st'.pos = st.pos ]_vars

\* the stored position is always the boundary after the last accepted transaction
PosIsBoundary ==
  st.status = "run" /\ queue = <<>> => st.pos = PosAfter(Units, Start)
=============================================================================
