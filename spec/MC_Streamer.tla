---------------------------- MODULE MC_Streamer ----------------------------
(***************************************************************************)
(* Exhaustive model checking of the parser model against the declarative   *)
(* binlog semantics: a master emits every sequence of at most MaxUnits     *)
(* units over the alphabet of property C02 (transactions closed by XID /   *)
(* COMMIT / ROLLBACK with up to MaxStmts statements, DDL, autocommitted    *)
(* row change, statement DML, rotation, and the ignorable events), the     *)
(* parser consumes them one event at a time.                               *)
(* Properties: C01 Refines, C02 OnlyAtCommit, C03 LabelsChain/ResumeExact, *)
(* C15 TableAttribution, C17 GateFirst.                                    *)
(***************************************************************************)
EXTENDS ModelLog

CONSTANTS MaxUnits

VARIABLES st, queue, files, off, nunits, lastEv, lastWasUnitEnd, lastUnitKind

vars == <<st, queue, files, off, nunits, lastEv, lastWasUnitEnd, lastUnitKind>>


Init ==
  /\ st = StInit(Start)
  /\ queue = <<FakeRotate(Start.file, Start.off), Fde>>
  /\ files = EmptyFiles
  /\ off = 4
  /\ nunits = 0
  /\ lastEv = Fde
  /\ lastWasUnitEnd = FALSE
  /\ lastUnitKind = "none"

CurFile == files[Len(files)]

Produce(d) ==
  /\ queue = <<>>
  /\ st.status = "run"
  /\ nunits < MaxUnits
  /\ LET r == AddUnit(files, off, d) IN
        /\ files' = r.files
        /\ off' = r.off
        /\ queue' = r.evs \o (IF d.u = "rotate" THEN <<FakeRotate(FileName(Len(files) + 1), 4), Fde>> ELSE <<>>)
  /\ nunits' = nunits + 1
  /\ UNCHANGED <<st, lastEv, lastWasUnitEnd, lastUnitKind>>

Units == AllUnits(files)

Consume ==
  /\ queue # <<>>
  /\ st.status = "run"
  /\ st' = Step(st, Head(queue), "ok", "ok")
  /\ queue' = Tail(queue)
  /\ lastEv' = Head(queue)
  /\ LET u == Units[Len(Units)] IN
       /\ lastWasUnitEnd' = (nunits > 0 /\ Head(queue) = u.evs[Len(u.evs)])
       /\ lastUnitKind' = IF nunits > 0 THEN u.u ELSE "none"
  /\ UNCHANGED <<files, off, nunits>>

Next == (\E d \in UnitDescs : Produce(d)) \/ Consume

Spec == Init /\ [][Next]_vars

(***************************************************************************)
(* Properties.                                                             *)
(***************************************************************************)
\* units completely consumed so far
Done == IF queue = <<>> \/ nunits = 0 THEN Units
        ELSE IF \E i \in 1..Len(queue) : queue[i] = Units[Len(Units)].evs[Len(Units[Len(Units)].evs)]
             THEN Sub(Units, 1, Len(Units) - 1) ELSE Units

\* C01 / C02: at every state the handler has seen exactly the committed transactions of what was consumed
Refines == st.status = "run" => st.delivered = Committed(Done, Start)

\* C15: every delivered row change is attributed to the table announced for its id by the latest table map
\* (the ground-truth table is the one the master wrote the event for)
TableAttribution ==
  \A i \in 1..Len(st.delivered) : \A j \in 1..Len(st.delivered[i].changes) :
     LET c == st.delivered[i].changes[j] IN IsRows(c) => c.tbl = c.gt

\* C02 (action property): the handler is called only when the commit event of a unit is consumed,
\* at most once per event, and what was delivered is never changed afterwards
OnlyAtCommit ==
  [][ /\ IsPrefix(st.delivered, st'.delivered)
      /\ Len(st'.delivered) <= Len(st.delivered) + 1
      /\ (st'.delivered # st.delivered => (lastWasUnitEnd' /\ lastUnitKind' \in TxUnits)) ]_vars

\* C03: labels chain
LabelsChain ==
  \A k \in 1..Len(st.delivered) :
     LET t == st.delivered[k] IN
       /\ t.next.file = t.now.file
       /\ \/ t.now = (IF k = 1 THEN Start ELSE st.delivered[k - 1].next)
          \/ \E i \in 1..Len(Units) : Units[i].u = "rotate" /\ t.now = [file |-> Units[i].evs[1].rotfile, off |-> Units[i].evs[1].rotpos]

\* C03: every end label is an exact resume point (checked when the master is done)
ResumeExact ==
  (queue = <<>> /\ st.status = "run") =>
     \A k \in 1..Len(st.delivered) :
        LET p == st.delivered[k].next
            r == Run(Served(files, p), StInit(p))
        IN r.status = "run" /\ r.delivered = Sub(st.delivered, k + 1, Len(st.delivered))

\* C17 (action property): an invalid event ends the run with an error, delivering nothing and keeping the position
GateFirst ==
  [][ lastEv'.k = "invalid" /\ lastEv' # lastEv =>
        st'.status = "error" /\ st'.delivered = st.delivered /\ st'.pos = st.pos ]_vars

\* the stored position is always the boundary after the last accepted transaction
PosIsBoundary ==
  st.status = "run" /\ queue = <<>> => st.pos = PosAfter(Units, Start)
=============================================================================
