SPECIFICATION Spec
CONSTANT N = 2
INVARIANT Emit
CHECK_DEADLOCK FALSE
