--------------------------- MODULE MC_Conn_proofs ---------------------------
(***************************************************************************)
(* Machine-checked (TLAPS) proofs of two safety properties of MC_Conn for  *)
(* ANY number of attempts, packets and Error() calls (TLC checks them for  *)
(* 1-2 attempts and 2-3 packets):                                          *)
(*   HandlerDiscipline  the handler only runs inside Stream (C05)          *)
(*   ConnectionClosed   once Stream has returned, the attempt's connection *)
(*                      is closed (or was never made) (C05)                *)
(* by an inductive invariant, one proof step per action of the model.      *)
(* The only assumption on the Defects toggles is that the deferred close   *)
(* exists ("noDeferredClose" is the toggle that removes it).               *)
(***************************************************************************)
EXTENDS MC_Conn, TLAPS

ASSUME ConstAssump == MaxAttempts \in Nat /\ MaxPkts \in Nat /\ "noDeferredClose" \notin Defects

SockStates == {"none", "open", "broken", "closed"}
Results == {"none", "nil", "err"}

Inv ==
  /\ att \in 0..MaxAttempts
  /\ sock \in [Att -> SockStates]
  /\ result \in [Att -> Results]
  /\ retRes \in Results
  /\ hpc = "running" => spc = "handler"
  /\ \A a \in Att : a > att => result[a] = "none" /\ sock[a] = "none"
  /\ spc # "idle" => att \in Att /\ result[att] = "none"
  /\ spc = "connect" => sock[att] = "none"
  /\ spc = "return" => sock[att] = "closed"
  /\ \A a \in Att : result[a] # "none" => sock[a] \in {"closed", "none"}

LEMMA InitInv == Init => Inv
  BY ConstAssump DEF Init, Inv, Att, SockStates, Results

LEMMA NextInv == Inv /\ [Next]_vars => Inv'
<1> SUFFICES ASSUME Inv, [Next]_vars PROVE Inv'
  OBVIOUS
<1> USE ConstAssump DEF Inv, Att, SockStates, Results, ReturnWith, CloseAndReturn, ReaderExit
<1>1. CASE Call BY <1>1 DEF Call
<1>2. CASE ConnectOk BY <1>2 DEF ConnectOk, ConnectOkN
<1>3. CASE ConnectFail BY <1>3 DEF ConnectFail
<1>4. CASE SendSetOk BY <1>4 DEF SendSetOk
<1>5. CASE SendSetFail BY <1>5 DEF SendSetFail
<1>6. CASE SendDumpOk BY <1>6 DEF SendDumpOk
<1>7. CASE SendDumpFail BY <1>7 DEF SendDumpFail
<1>8. CASE Spawn BY <1>8 DEF Spawn
<1>9. CASE ParserTakesEvent BY <1>9 DEF ParserTakesEvent
<1>10. CASE ParserSeesClosed BY <1>10 DEF ParserSeesClosed
<1>11. CASE ParserSeesCtx BY <1>11 DEF ParserSeesCtx
<1>12. CASE HandlerOk BY <1>12 DEF HandlerOk
<1>13. CASE HandlerErr BY <1>13 DEF HandlerErr
<1>14. CASE CloseDone BY <1>14 DEF CloseDone
<1>15. CASE CloseSocket BY <1>15 DEF CloseSocket
<1>16. CASE Return BY <1>16 DEF Return
<1>17. CASE \E a \in Att : ReaderRead(a) BY <1>17 DEF ReaderRead
<1>18. CASE \E a \in Att : ReaderSeesCtx(a) BY <1>18 DEF ReaderSeesCtx
<1>19. CASE \E a \in Att : ReaderSeesDone(a) BY <1>19 DEF ReaderSeesDone
<1>20. CASE \E a \in Att : ReaderPublish(a) BY <1>20 DEF ReaderPublish
<1>21. CASE \E a \in Att : ReaderCloseErr(a) BY <1>21 DEF ReaderCloseErr
<1>22. CASE \E a \in Att : ReaderCloseEv(a) BY <1>22 DEF ReaderCloseEv
<1>23. CASE Cancel BY <1>23 DEF Cancel
<1>24. CASE Break BY <1>24 DEF Break
<1>25. CASE ErrorCall BY <1>25 DEF ErrorCall
<1>26. CASE ErrorRecv BY <1>26 DEF ErrorRecv
<1>27. CASE UNCHANGED vars BY <1>27 DEF vars
<1> QED BY <1>1, <1>2, <1>3, <1>4, <1>5, <1>6, <1>7, <1>8, <1>9, <1>10, <1>11, <1>12, <1>13, <1>14, <1>15, <1>16,
           <1>17, <1>18, <1>19, <1>20, <1>21, <1>22, <1>23, <1>24, <1>25, <1>26, <1>27 DEF Next

THEOREM Safety == Init /\ [][Next]_vars => [](HandlerDiscipline /\ ConnectionClosed)
<1>1. Inv => HandlerDiscipline /\ ConnectionClosed
  BY DEF Inv, HandlerDiscipline, ConnectionClosed, Returned
<1>2. Init /\ [][Next]_vars => []Inv
  BY InitInv, NextInv, PTL
<1> QED BY <1>1, <1>2, PTL
=============================================================================
