\* the code as it is: Error() consults the context at call time (known finding C06-late-cancel)
SPECIFICATION Spec
CONSTANTS
  MaxPkts = 3
  MaxAttempts = 1
  MaxErrorCalls = 2
  Defects = {"ctxAtErrorTime"}
INVARIANTS HandlerDiscipline ConnectionClosed ReasonReportedExceptLateCancel
PROPERTIES StreamTerminates NothingLeftBehind ErrorNeverBlocks
CHECK_DEADLOCK FALSE
