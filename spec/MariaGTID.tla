----------------------------- MODULE MariaGTID -----------------------------
(***************************************************************************)
(* MariaDB GTID sets (property C19): a set keeps at most one position       *)
(* [dom, srv, seq] per replication domain.  Representation: a sequence of   *)
(* entries as the Go slice; operators shaped like mariadb_gtid.go.          *)
(***************************************************************************)
EXTENDS Integers, Sequences, FiniteSets, TLC

CONSTANT MDefects

Domains(set) == {set[i].dom : i \in 1..Len(set)}
OnePerDomain(set) == \A i, j \in 1..Len(set) : i # j => set[i].dom # set[j].dom
PosOf(set, d) == set[CHOOSE i \in 1..Len(set) : set[i].dom = d]

\* meaning: domain -> position
Meaning(set) == [d \in Domains(set) |-> PosOf(set, d)]

\* AddGTID: a NEW set; the receiver is a heap object that must not change (modelled by returning both)
AddOp(set, g) ==
  IF g.dom \in Domains(set)
  THEN IF g.seq > PosOf(set, g.dom).seq
       THEN [i \in 1..Len(set) |-> IF set[i].dom = g.dom THEN g ELSE set[i]]
       ELSE set
  ELSE Append(set, g)
\* what the receiver looks like after AddGTID returned
ReceiverAfterAdd(set, g) == IF "addInPlace" \in MDefects THEN (IF g.dom \in Domains(set) THEN AddOp(set, g) ELSE set) ELSE set

ContainsGtidOp(set, g) == g.dom \in Domains(set) /\ PosOf(set, g.dom).seq >= g.seq
ContainsOp(a, b) == \A i \in 1..Len(b) : ContainsGtidOp(a, b[i])
=============================================================================
