SPECIFICATION Spec
CONSTANTS
  Defects = {}
  MaxUnits = 4
  MaxStmts = 1
  WithInvalid = FALSE
  MaxAttempts = 4
  MaxFailed = 3
INVARIANTS ExactlyOnce Complete ResumeIsBoundaryAfterAccepted HandshakeExact
PROPERTIES NoPartialOnInvalid
CHECK_DEADLOCK FALSE
