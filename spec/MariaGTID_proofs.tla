------------------------- MODULE MariaGTID_proofs -------------------------
(***************************************************************************)
(* Machine-checked (TLAPS) proofs about the MariaDB GTID-set operators of   *)
(* MariaGTID.tla, for ALL sets and GTIDs (no bound): AddGTID keeps at most  *)
(* one position per replication domain, and never shortens a set.  This is *)
(* the unbounded counterpart of MC_MariaGTID's OnePositionPerDomain.        *)
(***************************************************************************)
EXTENDS MariaGTID, TLAPS

Entry == [dom : Nat, srv : Nat, seq : Nat]

LEMMA DomainsOfAppend ==
  ASSUME NEW set \in Seq(Entry), NEW g \in Entry
  PROVE  /\ Len(Append(set, g)) = Len(set) + 1
         /\ \A i \in 1..Len(set) : Append(set, g)[i] = set[i]
         /\ Append(set, g)[Len(set) + 1] = g
  OBVIOUS

THEOREM AddKeepsOnePerDomain ==
  ASSUME NEW set \in Seq(Entry), NEW g \in Entry, OnePerDomain(set)
  PROVE  OnePerDomain(AddOp(set, g))
<1>1. CASE g.dom \in Domains(set) /\ g.seq > PosOf(set, g.dom).seq
  <2> DEFINE new == [i \in 1..Len(set) |-> IF set[i].dom = g.dom THEN g ELSE set[i]]
  <2>1. AddOp(set, g) = new
    BY <1>1 DEF AddOp
  <2>2. Len(new) = Len(set) /\ \A i \in 1..Len(set) : new[i].dom = set[i].dom
    OBVIOUS
  <2>3. OnePerDomain(new)
    BY <2>2 DEF OnePerDomain
  <2> QED BY <2>1, <2>3
<1>2. CASE g.dom \in Domains(set) /\ ~(g.seq > PosOf(set, g.dom).seq)
  BY <1>2 DEF AddOp
<1>3. CASE g.dom \notin Domains(set)
  <2>1. AddOp(set, g) = Append(set, g)
    BY <1>3 DEF AddOp
  <2>2. \A i \in 1..Len(set) : set[i].dom # g.dom
    BY <1>3 DEF Domains
  <2>3. OnePerDomain(Append(set, g))
    <3> DEFINE app == Append(set, g)
    <3> SUFFICES ASSUME NEW i \in 1..Len(app), NEW j \in 1..Len(app), i # j
                 PROVE  app[i].dom # app[j].dom
      BY DEF OnePerDomain
    <3>0. Len(app) = Len(set) + 1 /\ Len(set) \in Nat
      BY DomainsOfAppend
    <3>1. CASE i <= Len(set) /\ j <= Len(set)
      <4>1. app[i] = set[i] /\ app[j] = set[j]
        BY <3>1, DomainsOfAppend
      <4> QED BY <3>1, <4>1 DEF OnePerDomain
    <3>2. CASE i = Len(set) + 1
      <4>1. j \in 1..Len(set)
        BY <3>0, <3>2
      <4>2. app[i] = g /\ app[j] = set[j]
        BY <3>2, <4>1, DomainsOfAppend
      <4> QED BY <4>1, <4>2, <2>2
    <3>3. CASE j = Len(set) + 1
      <4>1. i \in 1..Len(set)
        BY <3>0, <3>3
      <4>2. app[j] = g /\ app[i] = set[i]
        BY <3>3, <4>1, DomainsOfAppend
      <4> QED BY <4>1, <4>2, <2>2
    <3> QED BY <3>0, <3>1, <3>2, <3>3
  <2> QED BY <2>1, <2>3
<1> QED BY <1>1, <1>2, <1>3

(***************************************************************************)
(* The result of AddGTID contains the GTID that was added (sequence numbers *)
(* compared within the domain), for every set with one position per domain. *)
(***************************************************************************)
LEMMA PosOfUnique ==
  ASSUME NEW set \in Seq(Entry), OnePerDomain(set), NEW k \in 1..Len(set)
  PROVE  PosOf(set, set[k].dom) = set[k]
<1>1. \A i \in 1..Len(set) : set[i].dom = set[k].dom => i = k
  BY DEF OnePerDomain
<1>2. (CHOOSE i \in 1..Len(set) : set[i].dom = set[k].dom) = k
  BY <1>1
<1> QED BY <1>2 DEF PosOf

THEOREM AddContains ==
  ASSUME NEW set \in Seq(Entry), NEW g \in Entry, OnePerDomain(set)
  PROVE  ContainsGtidOp(AddOp(set, g), g)
<1>0. OnePerDomain(AddOp(set, g))
  BY AddKeepsOnePerDomain
<1>1. CASE g.dom \in Domains(set) /\ g.seq > PosOf(set, g.dom).seq
  <2> DEFINE new == [i \in 1..Len(set) |-> IF set[i].dom = g.dom THEN g ELSE set[i]]
  <2>1. AddOp(set, g) = new
    BY <1>1 DEF AddOp
  <2>2. PICK k \in 1..Len(set) : set[k].dom = g.dom
    BY <1>1 DEF Domains
  <2>3. new \in Seq(Entry) /\ Len(new) = Len(set) /\ new[k] = g
    BY <2>2
  <2>4. PosOf(new, new[k].dom) = new[k]
    BY <2>1, <2>3, <1>0, PosOfUnique
  <2>5. g.dom \in Domains(new)
    BY <2>3 DEF Domains
  <2>6. PosOf(new, g.dom) = g
    BY <2>3, <2>4
  <2>7. g.seq \in Nat
    BY DEF Entry
  <2> QED BY <2>1, <2>5, <2>6, <2>7 DEF ContainsGtidOp
<1>2. CASE g.dom \in Domains(set) /\ ~(g.seq > PosOf(set, g.dom).seq)
  <2>1. AddOp(set, g) = set
    BY <1>2 DEF AddOp
  <2>2. PICK k \in 1..Len(set) : set[k].dom = g.dom
    BY <1>2 DEF Domains
  <2>3. PosOf(set, g.dom) = set[k]
    BY <2>2, PosOfUnique
  <2>4. set[k].seq \in Nat /\ g.seq \in Nat
    BY <2>2 DEF Entry
  <2> QED BY <1>2, <2>1, <2>3, <2>4 DEF ContainsGtidOp
<1>3. CASE g.dom \notin Domains(set)
  <2> DEFINE app == Append(set, g)
  <2>1. AddOp(set, g) = app
    BY <1>3 DEF AddOp
  <2>2. app \in Seq(Entry) /\ Len(app) = Len(set) + 1 /\ app[Len(set) + 1] = g /\ Len(set) + 1 \in 1..Len(app)
    BY DomainsOfAppend
  <2>3. PosOf(app, app[Len(set) + 1].dom) = app[Len(set) + 1]
    BY <2>1, <2>2, <1>0, PosOfUnique
  <2>4. g.dom \in Domains(app)
    BY <2>2 DEF Domains
  <2>5. g.seq \in Nat
    BY DEF Entry
  <2> QED BY <2>1, <2>2, <2>3, <2>4, <2>5 DEF ContainsGtidOp
<1> QED BY <1>1, <1>2, <1>3
=============================================================================
