SPECIFICATION Spec
CONSTANTS
  MaxPackets = 3
  Defects = {}
INVARIANT Stable
CHECK_DEADLOCK FALSE
