SPECIFICATION Spec
CONSTANTS
  GDefects = {}
  U = 2
  W = 4
INVARIANTS RepIsCanon AddIsUnion MembershipAgrees SupersetAgrees EqualityAgrees
CHECK_DEADLOCK FALSE
