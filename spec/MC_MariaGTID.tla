---------------------------- MODULE MC_MariaGTID ----------------------------
(* All histories of AddGTID over a few domains / servers / sequence numbers: one position per domain, containment by
   sequence number within the domain, the receiver never changes. *)
EXTENDS MariaGTID

CONSTANTS D, S, Q, MaxAdds

Gtids == [dom : 1..D, srv : 1..S, seq : 1..Q]

VARIABLES set, prev, prevAfter, adds
Init == set = <<>> /\ prev = <<>> /\ prevAfter = <<>> /\ adds = 0
Next == /\ adds < MaxAdds
        /\ \E g \in Gtids : /\ set' = AddOp(set, g)
                            /\ prev' = set                        \* the receiver as it was
                            /\ prevAfter' = ReceiverAfterAdd(set, g)   \* the receiver as it is after the call
        /\ adds' = adds + 1
Spec == Init /\ [][Next]_<<set, prev, prevAfter, adds>>

OnePositionPerDomain == OnePerDomain(set)
ReceiverUnchanged == prevAfter = prev
KeepsGreatest ==
  \A d \in Domains(set) : \A g \in Gtids : (g.dom = d /\ ContainsGtidOp(set, g)) <=> (g.dom = d /\ g.seq <= Meaning(set)[d].seq)
ContainmentWithinDomain == \A g \in Gtids : ContainsGtidOp(set, g) <=> (g.dom \in Domains(set) /\ g.seq <= Meaning(set)[g.dom].seq)
AddMonotone == \A g \in Gtids : ContainsOp(AddOp(set, g), set) /\ ContainsGtidOp(AddOp(set, g), g)
=============================================================================
