----------------------------- MODULE MC_Session -----------------------------
(***************************************************************************)
(* One Streamer object over several Stream() attempts with faults          *)
(* (properties C04, C07, C17): the stored position nowPos survives between *)
(* attempts; each attempt asks the master for the stream at nowPos, runs    *)
(* the parser model over the served packets and may be ended by any fault  *)
(* of C04's quantifier:                                                    *)
(*   transport: socket close / reset / short packet / out-of-sequence      *)
(*              packet / ERR packet / EOF packet / cancel  (FaultStop)     *)
(*   handler error (FaultHandler), mapper error or column-count mismatch   *)
(*   (FaultMapper), unsupported or invalid event (FaultInject), and an     *)
(*   attempt that fails before its dump starts (FaultConnect).             *)
(* The log is any sequence of at most MaxUnits units over SessionUnits.    *)
(***************************************************************************)
EXTENDS ModelLog

CONSTANTS MaxUnits, MaxAttempts, MaxFailed

VARIABLES files, nowPos, att, phase, st, rest, accAll, dumps, failed, cleanEnd

svars == <<files, nowPos, att, phase, st, rest, accAll, dumps, failed, cleanEnd>>

W(t) == <<"write", t>>
SessionUnits ==
  {[u |-> "txxid", body |-> <<W(TA)>>], [u |-> "txcommit", body |-> <<>>], [u |-> "txrollback", body |-> <<<<"update", TB>>>>],
   [u |-> "ddl", body |-> <<>>], [u |-> "autorow", body |-> <<W(TB)>>], [u |-> "rotate", body |-> <<>>],
   [u |-> "ign", body |-> <<<<"heartbeat", None>>>>]}

Logs == UNION {[1..n -> SessionUnits] : n \in 0..MaxUnits}

Expected == Committed(UnitsFrom(files, Start), Start)
NextLabels(txs) == [i \in 1..Len(txs) |-> txs[i].next]

\* all valid resume points of the log
Boundaries ==
  UNION {{[file |-> files[i].name, off |-> files[i].first]} \cup
         {[file |-> files[i].name, off |-> Last(files[i].units[j].evs).end] :
            j \in {x \in 1..Len(files[i].units) : files[i].units[x].u \in TxUnits}}
         : i \in 1..Len(files)}

\* the positions from which exactly the not-yet-accepted transactions follow
EquivBoundaries(n) ==
  {p \in Boundaries : NextLabels(Committed(UnitsFrom(files, p), p)) = NextLabels(Sub(Expected, n + 1, Len(Expected)))}

Init ==
  /\ \E descs \in Logs : files = BuildFiles(descs)
  /\ nowPos = Start
  /\ att = 0
  /\ phase = "idle"
  /\ st = StInit(Start)
  /\ rest = <<>>
  /\ accAll = <<>>
  /\ dumps = <<>>
  /\ failed = 0
  /\ cleanEnd = FALSE

StartAttempt ==
  /\ phase = "idle"
  /\ att < MaxAttempts
  /\ dumps' = Append(dumps, IF "dumpFromStart" \in Defects THEN Start ELSE nowPos)
  /\ st' = StInit(nowPos)
  /\ rest' = IF nowPos \in Boundaries THEN Served(files, nowPos) ELSE <<[k |-> "invalid"]>>
  /\ phase' = "streaming"
  /\ cleanEnd' = FALSE
  /\ UNCHANGED <<files, nowPos, att, accAll, failed>>

Advance(s2) ==
  /\ st' = s2
  /\ accAll' = accAll \o Sub(s2.accepted, Len(st.accepted) + 1, Len(s2.accepted))

Recv ==
  /\ phase = "streaming" /\ st.status = "run" /\ rest # <<>>
  /\ Advance(Step(st, Head(rest), "ok", "ok"))
  /\ rest' = Tail(rest)
  /\ UNCHANGED <<files, nowPos, att, phase, dumps, failed, cleanEnd>>

CanFault == phase = "streaming" /\ st.status = "run" /\ failed < MaxFailed

FaultHandler ==
  /\ CanFault /\ rest # <<>>
  /\ LET s2 == Step(st, Head(rest), "err", "ok") IN s2.status = "error" /\ s2.err = "handler" /\ Advance(s2)
  /\ rest' = Tail(rest)
  /\ failed' = failed + 1
  /\ UNCHANGED <<files, nowPos, att, phase, dumps, cleanEnd>>

FaultMapper(m) ==
  /\ CanFault /\ rest # <<>> /\ Head(rest).k = "tablemap"
  /\ LET s2 == Step(st, Head(rest), "ok", m) IN s2.status = "error" /\ Advance(s2)
  /\ rest' = Tail(rest)
  /\ failed' = failed + 1
  /\ UNCHANGED <<files, nowPos, att, phase, dumps, cleanEnd>>

FaultInject(k) ==
  /\ CanFault /\ st.format
  /\ Advance(Step(st, [k |-> k], "ok", "ok"))
  /\ failed' = failed + 1
  /\ UNCHANGED <<files, nowPos, att, phase, rest, dumps, cleanEnd>>

FaultStop ==
  /\ CanFault
  /\ Advance([st EXCEPT !.status = "stopped"])
  /\ failed' = failed + 1
  /\ UNCHANGED <<files, nowPos, att, phase, rest, dumps, cleanEnd>>

\* An attempt that ends before the dump starts (the master is unreachable, refuses the handshake, rejects the checksum
\* announcement, or the connection dies right after it): no dump request, nothing parsed, and the stored position stays
\* what it was.  Defect "connectFailResetsPos": the attempt writes back the position of a parser that never ran.
NoDump == [file |-> 0, off |-> 0 - 1]
FaultConnect ==
  /\ phase = "idle" /\ att < MaxAttempts /\ failed < MaxFailed
  /\ dumps' = Append(dumps, NoDump)
  /\ nowPos' = IF "connectFailResetsPos" \in Defects THEN [file |-> 0, off |-> 0] ELSE nowPos
  /\ att' = att + 1
  /\ failed' = failed + 1
  /\ cleanEnd' = FALSE
  /\ UNCHANGED <<files, phase, st, rest, accAll>>

EndAttempt ==
  /\ phase = "streaming"
  /\ st.status # "run" \/ rest = <<>>
  /\ nowPos' = st.pos
  /\ phase' = "idle"
  /\ att' = att + 1
  /\ cleanEnd' = (st.status = "run" /\ rest = <<>>)
  /\ UNCHANGED <<files, st, rest, accAll, dumps, failed>>

Next ==
  \/ StartAttempt \/ Recv \/ EndAttempt
  \/ FaultHandler \/ FaultStop \/ FaultConnect
  \/ \E m \in {"err", "mismatch"} : FaultMapper(m)
  \/ \E k \in {"invalid", "rand"} : FaultInject(k)

Spec == Init /\ [][Next]_svars

(***************************************************************************)
(* Properties.                                                             *)
(***************************************************************************)
\* C04: in order, no repeat, none skipped ...
ExactlyOnce == IsPrefix(accAll, Expected)
\* ... and after a clean final attempt, all of them
Complete == (phase = "idle" /\ cleanEnd) => accAll = Expected
\* C04 / C17: between attempts the stored position is the commit boundary after the last accepted transaction
ResumeIsBoundaryAfterAccepted == phase = "idle" => nowPos \in EquivBoundaries(Len(accAll))
\* C07: every attempt asks for exactly the stored position
HandshakeExact == phase = "streaming" => dumps[Len(dumps)] = nowPos /\ Len(dumps) = att + 1
\* C17: an invalid event never produces a delivery or moves the position (action property)
NoPartialOnInvalid ==
  [][ (st.status = "run" /\ st'.status = "error" /\ st'.err = "invalid") =>
        (st'.delivered = st.delivered /\ st'.pos = st.pos /\ accAll' = accAll) ]_svars
=============================================================================
