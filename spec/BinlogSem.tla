----------------------------- MODULE BinlogSem -----------------------------
(***************************************************************************)
(* Declarative semantics of a well-formed row-based binlog: what a replica *)
(* must deliver.  A log is a sequence of UNITS (the alphabet of property   *)
(* C02); each unit is a record [u |-> kind, evs |-> sequence of events].   *)
(*                                                                         *)
(* An event is a record with (at least) the fields                         *)
(*   k    "query" "xid" "tablemap" "write" "update" "delete" "rotate" ...  *)
(*   ts   header timestamp          end  offset after the event (log_pos)  *)
(*   cat  for queries: begin commit rollback ddl dml unknown               *)
(*   sql, db, tbl, rows, rotfile, rotpos                                   *)
(* Offsets, timestamps and names are opaque values compared by equality    *)
(* (small integers in the model-checking configurations, decimal strings   *)
(* and byte sequences in traces of the real code).                         *)
(***************************************************************************)
EXTENDS Bytes

\* ("xidalone" / "commitalone": a commit event that closes nothing - no BEGIN before it, as in MariaDB-shaped streams where the
\* GTID event opens the transaction and its rows were already committed one by one - is a commit point of its own: an empty
\* transaction that advances the position)
TxUnits == {"txxid", "txcommit", "txrollback", "ddl", "autorow", "stmtdml", "xidalone", "commitalone"}

Last(s) == s[Len(s)]

IsRows(e) == e.k \in {"write", "update", "delete"}
IsChange(e) == IsRows(e) \/ (e.k = "query" /\ e.cat \in {"ddl", "dml"})

\* the changes a committed unit carries, in log order (none for a rolled-back transaction)
ChangesOf(u) == IF u.u = "txrollback" THEN <<>> ELSE SelectSeq(u.evs, IsChange)

\* the transaction a unit commits: starts at `now`, ends after the unit's last event in file `file`
TxOf(u, now, file) ==
  [now     |-> now,
   next    |-> [file |-> file, off |-> Last(u.evs).end],
   ts      |-> Last(u.evs).ts,
   changes |-> ChangesOf(u)]

(***************************************************************************)
(* Committed(units, pos): the transactions a replica positioned at pos     *)
(* (a unit boundary) must deliver for the units that follow.               *)
(***************************************************************************)
RECURSIVE Committed(_, _)
Committed(units, pos) ==
  IF units = <<>> THEN <<>>
  ELSE LET u == Head(units) IN
       IF u.u \in TxUnits
       THEN LET t == TxOf(u, pos, pos.file) IN <<t>> \o Committed(Tail(units), t.next)
       ELSE IF u.u = "rotate"
       THEN Committed(Tail(units), [file |-> u.evs[1].rotfile, off |-> u.evs[1].rotpos])
       ELSE Committed(Tail(units), pos)

\* the position after all the units (where a replica that consumed them all stands)
RECURSIVE PosAfter(_, _)
PosAfter(units, pos) ==
  IF units = <<>> THEN pos
  ELSE LET u == Head(units) IN
       IF u.u \in TxUnits THEN PosAfter(Tail(units), [file |-> pos.file, off |-> Last(u.evs).end])
       ELSE IF u.u = "rotate" THEN PosAfter(Tail(units), [file |-> u.evs[1].rotfile, off |-> u.evs[1].rotpos])
       ELSE PosAfter(Tail(units), pos)

(***************************************************************************)
(* Files.  A file is [name, first, units]; `first` is the offset of its    *)
(* first event (4 plus the file's base).  UnitsFrom(files, pos) are the    *)
(* units a dump started at the boundary pos serves.                        *)
(***************************************************************************)
RECURSIVE AfterBoundary(_, _)
\* units of one file that follow the boundary at offset off (off is the end of a transaction unit)
AfterBoundary(units, off) ==
  IF units = <<>> THEN <<>>
  ELSE IF Head(units).u \in TxUnits /\ Last(Head(units).evs).end = off THEN Tail(units)
  ELSE AfterBoundary(Tail(units), off)

RECURSIVE AllUnits(_)
AllUnits(files) == IF files = <<>> THEN <<>> ELSE Head(files).units \o AllUnits(Tail(files))

RECURSIVE UnitsFrom(_, _)
UnitsFrom(files, pos) ==
  IF files = <<>> THEN <<>>
  ELSE LET f == Head(files) IN
       IF f.name # pos.file THEN UnitsFrom(Tail(files), pos)
       ELSE (IF pos.off = f.first THEN f.units ELSE AfterBoundary(f.units, pos.off)) \o AllUnits(Tail(files))

\* is pos a valid resume point of the log?
IsBoundary(files, pos) ==
  \E i \in 1..Len(files) :
     /\ files[i].name = pos.file
     /\ \/ pos.off = files[i].first
        \/ \E j \in 1..Len(files[i].units) :
              files[i].units[j].u \in TxUnits /\ Last(files[i].units[j].evs).end = pos.off

IsPrefix(a, b) == Len(a) <= Len(b) /\ \A i \in 1..Len(a) : a[i] = b[i]
=============================================================================
