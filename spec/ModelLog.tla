------------------------------ MODULE ModelLog ------------------------------
(***************************************************************************)
(* Small abstract binlogs for the model-checking configurations: tables,   *)
(* statements, the unit alphabet of property C02 and its expansion into    *)
(* events with offsets.  Shared by MC_Streamer and MC_Session.             *)
(***************************************************************************)
EXTENDS Streamer

CONSTANTS MaxStmts, WithInvalid

\* three tables; TC re-uses TA's table id for a different table (ids are re-used after a master restart)
TA == [id |-> 1, db |-> "d", name |-> "a", cols |-> 2]
TB == [id |-> 2, db |-> "d", name |-> "b", cols |-> 3]
TC == [id |-> 1, db |-> "e", name |-> "c", cols |-> 1]
Tables == {TA, TB, TC}

E(k, cat, tbl) == [k |-> k, cat |-> cat, tbl |-> tbl, gt |-> tbl, ts |-> 0, end |-> 0, rotfile |-> 0, rotpos |-> 0, fake |-> FALSE]
None == [id |-> 0, db |-> "", name |-> "", cols |-> 0]

\* statements of a transaction body: row changes, a statement-format DML ("q"), a DDL logged inside the transaction ("dq":
\* CREATE / DROP TEMPORARY TABLE do not commit implicitly), an ignorable event ("ig")
Stmts == {<<k, t>> : k \in {"write", "update", "delete"}, t \in Tables} \cup {<<"q", None>>, <<"dq", None>>, <<"ig", None>>}
StmtEvents(s) ==
  IF s[1] = "q" THEN <<E("query", "dml", None)>>
  ELSE IF s[1] = "dq" THEN <<E("query", "ddl", None)>>
  ELSE IF s[1] = "ig" THEN <<E("unknown", "none", None)>>
  ELSE <<E("tablemap", "none", s[2]), E(s[1], "none", s[2])>>

Bodies == UNION {[1..n -> Stmts] : n \in 0..MaxStmts}
RECURSIVE BodyEvents(_)
BodyEvents(b) == IF b = <<>> THEN <<>> ELSE StmtEvents(Head(b)) \o BodyEvents(Tail(b))

Ignorables == {"gtid", "anongtid", "prevgtids", "heartbeat", "unknown", "unknownstmt"}

UnitDescs ==
  {[u |-> k, body |-> b] : k \in {"txxid", "txcommit", "txrollback"}, b \in Bodies} \cup
  {[u |-> "ddl", body |-> <<>>], [u |-> "stmtdml", body |-> <<>>], [u |-> "rotate", body |-> <<>>],
   [u |-> "xidalone", body |-> <<>>], [u |-> "commitalone", body |-> <<>>]} \cup
  {[u |-> "autorow", body |-> <<s>>] : s \in {x \in Stmts : x[1] \in {"write", "update", "delete"}}} \cup
  {[u |-> "ign", body |-> <<<<i, None>>>>] : i \in Ignorables} \cup
  (IF WithInvalid THEN {[u |-> "invalid", body |-> <<>>]} ELSE {})

UnitEvents(d) ==
  CASE d.u = "txxid"      -> <<E("query", "begin", None)>> \o BodyEvents(d.body) \o <<E("xid", "none", None)>>
    [] d.u = "txcommit"   -> <<E("query", "begin", None)>> \o BodyEvents(d.body) \o <<E("query", "commit", None)>>
    [] d.u = "txrollback" -> <<E("query", "begin", None)>> \o BodyEvents(d.body) \o <<E("query", "rollback", None)>>
    [] d.u = "xidalone"   -> <<E("xid", "none", None)>>
    [] d.u = "commitalone" -> <<E("query", "commit", None)>>
    [] d.u = "ddl"        -> <<E("query", "ddl", None)>>
    [] d.u = "stmtdml"    -> <<E("query", "dml", None)>>
    [] d.u = "autorow"    -> StmtEvents(d.body[1])
    [] d.u = "rotate"     -> <<E("rotate", "none", None)>>
    [] d.u = "invalid"    -> <<E("invalid", "none", None)>>
    [] d.u = "ign"        -> IF d.body[1][1] = "unknownstmt" THEN <<E("query", "unknown", None)>>
                             ELSE <<E(d.body[1][1], "none", None)>>

\* offsets: every event is 10 bytes long; a heartbeat is artificial and occupies no space
RECURSIVE Layout(_, _)
Layout(evs, o) ==
  IF evs = <<>> THEN <<>>
  ELSE LET e == Head(evs)
           n == IF e.k = "heartbeat" THEN o ELSE o + 10
       IN <<[e EXCEPT !.end = n, !.ts = n + 1000]>> \o Layout(Tail(evs), n)

FileName(i) == i      \* file names are numbers in the model
Start == [file |-> FileName(1), off |-> 4]

\* append a unit (descriptor d) to the files at offset o; returns [files, off, evs]
AddUnit(files, o, d) ==
  LET evs0 == Layout(UnitEvents(d), o)
      nf   == Len(files) + 1
      evs  == IF d.u = "rotate" THEN <<[evs0[1] EXCEPT !.rotfile = FileName(nf), !.rotpos = 4]>> ELSE evs0
      unit == [u |-> d.u, evs |-> evs]
      f1   == [files EXCEPT ![Len(files)].units = Append(@, unit)]
  IN [files |-> IF d.u = "rotate" THEN Append(f1, [name |-> FileName(nf), first |-> 4, units |-> <<>>]) ELSE f1,
      off   |-> IF d.u = "rotate" THEN 4 ELSE evs[Len(evs)].end,
      evs   |-> evs]

EmptyFiles == <<[name |-> FileName(1), first |-> 4, units |-> <<>>]>>

RECURSIVE BuildAcc(_, _, _)
BuildAcc(descs, files, o) ==
  IF descs = <<>> THEN files
  ELSE LET r == AddUnit(files, o, Head(descs)) IN BuildAcc(Tail(descs), r.files, r.off)
\* the files of the log made of the given unit descriptors
BuildFiles(descs) == BuildAcc(descs, EmptyFiles, 4)
=============================================================================
