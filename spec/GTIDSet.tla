------------------------------ MODULE GTIDSet ------------------------------
(***************************************************************************)
(* MySQL 5.6 GTID sets (property C18, set half of C19).                    *)
(*                                                                         *)
(* Abstract value: a set of <<sid, n>> pairs.  Representation: a sequence  *)
(* of entries [sid, ivs] with ivs a sequence of [s, e] (inclusive), as the *)
(* Go type map[SID][]interval.  Canon(rep): SIDs distinct, intervals       *)
(* sorted, disjoint and not adjacent.                                      *)
(*                                                                         *)
(* The operational operators (AddOp, ContainsGtidOp, ContainsOp, EqualOp)  *)
(* are written like the loops in mysql56_gtid_set.go; MC_GTIDSet checks    *)
(* them against the set-theoretic meaning for every set in a window.       *)
(* The declarative operators (Normal, Text, SIDBlockBytes) are the oracle  *)
(* for traces of the real code.                                            *)
(***************************************************************************)
EXTENDS Bytes, SequencesExt

CONSTANT GDefects     \* {} in every check; {"intervalNoMerge"}, {"addInPlace"} ... re-introduce realistic mistakes (selftest)

(***************************************************************************)
(* Meaning.                                                                *)
(***************************************************************************)
IvSet(iv) == iv.s..iv.e
EntryAbs(en) == {<<en.sid, n>> : n \in UNION {IvSet(en.ivs[i]) : i \in 1..Len(en.ivs)}}
Abs(rep) == UNION {EntryAbs(rep[i]) : i \in 1..Len(rep)}

Sids(rep) == {rep[i].sid : i \in 1..Len(rep)}
EntryOf(rep, sid) == rep[CHOOSE i \in 1..Len(rep) : rep[i].sid = sid]
IvsOf(rep, sid) == IF sid \in Sids(rep) THEN EntryOf(rep, sid).ivs ELSE <<>>

CanonIvs(ivs) ==
  /\ \A i \in 1..Len(ivs) : ivs[i].s <= ivs[i].e /\ ivs[i].s >= 1
  /\ \A i \in 1..(Len(ivs) - 1) : ivs[i].e + 1 < ivs[i + 1].s
Canon(rep) ==
  /\ \A i, j \in 1..Len(rep) : i # j => rep[i].sid # rep[j].sid
  /\ \A i \in 1..Len(rep) : rep[i].ivs # <<>> /\ CanonIvs(rep[i].ivs)

(***************************************************************************)
(* Operational definitions, shaped like the Go code.                       *)
(***************************************************************************)
\* ContainsGTID: scan the sorted intervals of the server
RECURSIVE ContainsScan(_, _)
ContainsScan(ivs, n) ==
  IF ivs = <<>> THEN FALSE
  ELSE IF Head(ivs).s > n THEN FALSE
  ELSE IF n <= Head(ivs).e THEN TRUE
  ELSE ContainsScan(Tail(ivs), n)
ContainsGtidOp(rep, sid, n) == ContainsScan(IvsOf(rep, sid), n)

\* AddGTID: one pass over the server's intervals: extend left / extend right / insert before, merging with the
\* previously emitted interval; append when nothing fitted
RECURSIVE AddScan(_, _, _, _)
AddScan(ivs, n, added, out) ==
  IF ivs = <<>> THEN [out |-> out, added |-> added]
  ELSE LET iv0 == Head(ivs)
           \* case analysis of the switch (only when not yet added)
           ext  == IF ~added /\ n = iv0.s - 1 THEN [s |-> n, e |-> iv0.e]
                   ELSE IF ~added /\ n = iv0.e + 1 THEN [s |-> iv0.s, e |-> n]
                   ELSE iv0
           ins  == ~added /\ n < iv0.s - 1          \* insert a new single interval before this one
           out1 == IF ins THEN Append(out, [s |-> n, e |-> n]) ELSE out
           add1 == added \/ ins \/ (~added /\ (n = iv0.s - 1 \/ n = iv0.e + 1))
           cnt  == Len(out1)
           out2 == IF cnt # 0 /\ ext.s = out1[cnt].e + 1 /\ "intervalNoMerge" \notin GDefects
                   THEN [out1 EXCEPT ![cnt].e = ext.e]
                   ELSE Append(out1, ext)
       IN AddScan(Tail(ivs), n, add1, out2)

AddOp(rep, sid, n) ==
  IF ContainsGtidOp(rep, sid, n) THEN rep
  ELSE IF sid \in Sids(rep)
       THEN LET r == AddScan(IvsOf(rep, sid), n, FALSE, <<>>)
                ivs2 == IF r.added THEN r.out ELSE Append(r.out, [s |-> n, e |-> n])
            IN [i \in 1..Len(rep) |-> IF rep[i].sid = sid THEN [sid |-> sid, ivs |-> ivs2] ELSE rep[i]]
       ELSE Append(rep, [sid |-> sid, ivs |-> <<[s |-> n, e |-> n]>>])

\* Contains: every interval of the other set is inside one of ours (index never reset)
RECURSIVE CoverScan(_, _)
CoverScan(mine, theirs) ==
  IF theirs = <<>> THEN TRUE
  ELSE IF mine = <<>> THEN FALSE
  ELSE IF Head(mine).s <= Head(theirs).s /\ Head(theirs).e <= Head(mine).e THEN CoverScan(mine, Tail(theirs))
  ELSE CoverScan(Tail(mine), theirs)
ContainsOp(a, b) == \A i \in 1..Len(b) : CoverScan(IvsOf(a, b[i].sid), b[i].ivs)

EqualOp(a, b) ==
  /\ Len(a) = Len(b)
  /\ \A i \in 1..Len(a) : IvsOf(b, a[i].sid) = a[i].ivs

(***************************************************************************)
(* Declarative normal form (the oracle for traces): insert n and merge.    *)
(***************************************************************************)
RECURSIVE MergeIvs(_)
\* ivs sorted by start; merge overlapping / adjacent
MergeIvs(ivs) ==
  IF Len(ivs) <= 1 THEN ivs
  ELSE LET a == ivs[1]  b == ivs[2] IN
       IF b.s <= a.e + 1 THEN MergeIvs(<<[s |-> a.s, e |-> Max2(a.e, b.e)]>> \o Sub(ivs, 3, Len(ivs)))
       ELSE <<a>> \o MergeIvs(Tail(ivs))

InsertSorted(ivs, iv) ==
  LET before == SelectSeq(ivs, LAMBDA x : x.s <= iv.s)
      after  == SelectSeq(ivs, LAMBDA x : x.s > iv.s)
  IN before \o <<iv>> \o after

NormalAdd(rep, sid, n) ==
  IF sid \in Sids(rep)
  THEN [i \in 1..Len(rep) |-> IF rep[i].sid = sid
                              THEN [sid |-> sid, ivs |-> MergeIvs(InsertSorted(rep[i].ivs, [s |-> n, e |-> n]))]
                              ELSE rep[i]]
  ELSE Append(rep, [sid |-> sid, ivs |-> <<[s |-> n, e |-> n]>>])

\* set-theoretic tests on interval lists (for wide sets, without enumerating members)
MemberIvs(ivs, n) == \E i \in 1..Len(ivs) : ivs[i].s <= n /\ n <= ivs[i].e
SubsetIvs(small, big) == \A i \in 1..Len(small) : \E j \in 1..Len(big) : big[j].s <= small[i].s /\ small[i].e <= big[j].e
SubsetRep(b, a) == \A i \in 1..Len(b) : SubsetIvs(b[i].ivs, IvsOf(a, b[i].sid))      \* for canonical a
=============================================================================
