---------------------------- MODULE Trace_Stream ----------------------------
(***************************************************************************)
(* Trace validation for the stream family.  The harness drives the REAL    *)
(* Streamer against a simulated master and records one ndjson line per     *)
(* observable event (DESIGN.md Appendix B).  This module replays the file: *)
(* the transition relation consumes one line per step; at the `end` line of*)
(* each scenario the monitors of the selected properties are evaluated on  *)
(* what was observed, with expectations computed from the scenario header  *)
(* by the declarative semantics (BinlogSem), the parser model (Streamer)   *)
(* and the format transcription (CellCodec).                               *)
(*                                                                         *)
(* A failed monitor prints one line  <<"MONFAIL", json>>  and increments   *)
(* nviol; the driver turns these into VIOLATION / KNOWN-FINDING lines.     *)
(***************************************************************************)
EXTENDS Streamer, CellCodec, Json

CONSTANTS TraceFile, Props

Trace == ndJsonDeserialize(TraceFile)

VARIABLES l, s0, nviol, nscen
tvars == <<l, s0, nviol, nscen>>

(***************************************************************************)
(* Accessors on a scenario slice S = [from, to] of the trace.              *)
(***************************************************************************)
Scen(S) == Trace[S.from]
Lines(S, evname) == SelectSeq(SubSeq(Trace, S.from, S.to), LAMBDA x : x.ev = evname)
LinesAtt(S, evname, a) == SelectSeq(SubSeq(Trace, S.from, S.to), LAMBDA x : x.ev = evname /\ x.att = a)
Delivered(S, a) == LinesAtt(S, "deliver", a)

StartPos(S) == Scen(S).start
Files(S) == Scen(S).files
ExpectedFrom(S, pos) == Committed(UnitsFrom(Files(S), pos), pos)

F(mon, S, info) == [mon |-> mon, id |-> Scen(S).id, fam |-> Scen(S).fam, info |-> info]

(***************************************************************************)
(* Matching an observed delivery against an expected transaction.          *)
(***************************************************************************)
WInsert == <<105, 110, 115, 101, 114, 116>>
WUpdate == <<117, 112, 100, 97, 116, 101>>
WDelete == <<100, 101, 108, 101, 116, 101>>
KindWord(k) == CASE k = "write" -> WInsert [] k = "update" -> WUpdate [] k = "delete" -> WDelete

\* first word of a statement, lower-cased (C02: boundary and statement keywords in any letter case)
RECURSIVE FirstWord(_)
FirstWord(sql) == IF sql = <<>> \/ Head(sql) = 32 THEN <<>> ELSE <<Lower(Head(sql))>> \o FirstWord(Tail(sql))

\* failures of one row image: set of [c, what]
ImageFails(drow, cells, cols) ==
  IF Len(drow) # Len(cols) THEN {[c |-> 0, what |-> "column-count", typ |-> 0]}
  ELSE UNION {
    LET d == drow[c]  x == cells[c]  col == cols[c] IN
      (IF d.name # col.name THEN {[c |-> c, what |-> "name", typ |-> col.typ]} ELSE {}) \cup
      (IF d.typ # col.typ THEN {[c |-> c, what |-> "type", typ |-> col.typ]} ELSE {}) \cup
      (IF d.st # x.st THEN {[c |-> c, what |-> "null/absent/value state", typ |-> col.typ]}
       ELSE IF x.st = "val" /\ ~CellMatches(col.typ, col.metab, x.bytes, col.uns, x.tz, d)
            THEN {[c |-> c, what |-> "value", typ |-> col.typ]}
       ELSE IF x.st # "val" /\ d.hasdata THEN {[c |-> c, what |-> "data on NULL/absent", typ |-> col.typ]}
       ELSE {})
    : c \in 1..Len(cols)}

ImagesFail(dimgs, rows, side, cols) ==
  IF Len(dimgs) # Len(rows) THEN {[c |-> 0, what |-> "row-count", typ |-> 0]}
  ELSE UNION {ImageFails(dimgs[r], IF side = "a" THEN rows[r].a ELSE rows[r].b, cols) : r \in 1..Len(rows)}

\* failures of one change: set of [what, ...]
ChangeFails(de, e, deep) ==
  IF e.k = "query"
  THEN (IF de.typ = FirstWord(e.sql) /\ de.sql = e.sql /\ de.qdb = e.db /\ de.db = <<>> /\ de.tbl = <<>>
           /\ de.ts = e.ts /\ de.vals = <<>> /\ de.ids = <<>> THEN {} ELSE {[c |-> 0, what |-> "statement", typ |-> 0]})
  ELSE (IF de.typ = KindWord(e.k) /\ de.sql = <<>> /\ de.ts = e.ts THEN {} ELSE {[c |-> 0, what |-> "kind/ts", typ |-> 0]}) \cup
       (IF de.db = e.tbl.db /\ de.tbl = e.tbl.name THEN {} ELSE {[c |-> 0, what |-> "table", typ |-> 0]}) \cup
       (IF ~deep THEN {}
        ELSE (IF e.k \in {"write", "update"} THEN ImagesFail(de.vals, e.rows, "a", e.tbl.cols)
              ELSE IF de.vals = <<>> THEN {} ELSE {[c |-> 0, what |-> "after-image on delete", typ |-> 0]}) \cup
             (IF e.k \in {"update", "delete"} THEN ImagesFail(de.ids, e.rows, "b", e.tbl.cols)
              ELSE IF de.ids = <<>> THEN {} ELSE {[c |-> 0, what |-> "before-image on insert", typ |-> 0]}))

TxFails(d, x, deep) ==
  (IF d.now = x.now THEN {} ELSE {[c |-> 0, what |-> "now-label", typ |-> 0]}) \cup
  (IF d.next = x.next THEN {} ELSE {[c |-> 0, what |-> "next-label", typ |-> 0]}) \cup
  (IF d.ts = x.ts THEN {} ELSE {[c |-> 0, what |-> "timestamp", typ |-> 0]}) \cup
  (IF Len(d.evs) # Len(x.changes) THEN {[c |-> 0, what |-> "number of changes", typ |-> 0]}
   ELSE UNION {ChangeFails(d.evs[j], x.changes[j], deep) : j \in 1..Len(x.changes)})

\* compare a whole delivered sequence with the expected one
SeqFails(mon, S, ds, xs, deep) ==
  (IF Len(ds) = Len(xs) THEN {}
   ELSE {F(mon, S, [what |-> "number of transactions", got |-> Len(ds), want |-> Len(xs), k |-> 0, c |-> 0, typ |-> 0])}) \cup
  UNION {{F(mon, S, [what |-> f.what, got |-> 0, want |-> 0, k |-> k, c |-> f.c, typ |-> f.typ]) : f \in TxFails(ds[k], xs[k], deep)}
         : k \in 1..Min(Len(ds), Len(xs))}

(***************************************************************************)
(* C01: end-to-end fidelity (single fault-free attempt).                   *)
(***************************************************************************)
MonC01(S) == SeqFails("C01.fidelity", S, Delivered(S, 0), ExpectedFrom(S, StartPos(S)), TRUE) \cup
  \* nothing else: the stream ended cleanly
  {F("C01.clean-end", S, [what |-> "stream did not end cleanly", got |-> 0, want |-> 0, k |-> 0, c |-> 0, typ |-> 0]) :
     x \in {y \in {Lines(S, "streamReturn")[i] : i \in 1..Len(Lines(S, "streamReturn"))} : y.att = 0 /\ (~y.returned \/ ~y.res.nil)}}

(***************************************************************************)
(* C02: grouping (contents ignored) and causality: when the handler is     *)
(* entered for transaction k the master has already sent k's commit packet.*)
(***************************************************************************)
\* 1-based index in the served packet sequence of the first event ending at offset off
RECURSIVE IndexOfEnd(_, _, _)
IndexOfEnd(evs, off, i) ==
  IF evs = <<>> THEN 0 ELSE IF ~Head(evs).fake /\ Head(evs).end = off THEN i ELSE IndexOfEnd(Tail(evs), off, i + 1)

MonC02(S) ==
  LET ds == Delivered(S, 0)
      xs == ExpectedFrom(S, StartPos(S))
      lock == Scen(S).attempts[1].pacing = "lockstep"
  IN SeqFails("C02.grouping", S, ds, xs, FALSE) \cup
     (IF ~lock THEN {}
      ELSE UNION {
        \* packets of the served stream up to and including the commit event of transaction k: the two
        \* artificial events, the per-file extras are only ever MORE packets, so this is a lower bound
        LET evs == Served(Files(S), StartPos(S))
            idx == IndexOfEnd(evs, ds[k].next.off, 1)
        IN IF idx > 0 /\ ds[k].sent < idx
           THEN {F("C02.before-commit", S, [what |-> "delivered before its commit event was sent", got |-> ds[k].sent, want |-> idx, k |-> k, c |-> 0, typ |-> 0])}
           ELSE {}
        : k \in 1..Len(ds)})

(***************************************************************************)
(* C03: labels chain; every end label is an exact resume point.            *)
(***************************************************************************)
RotTargets(S) ==
  {[file |-> u.evs[1].rotfile, off |-> u.evs[1].rotpos] : u \in {AllUnits(Files(S))[i] : i \in 1..Len(AllUnits(Files(S)))} \cap
      {v \in {AllUnits(Files(S))[i] : i \in 1..Len(AllUnits(Files(S)))} : v.u = "rotate"}}

CommitEnds(S) ==
  {Last(u.evs).end : u \in {v \in {AllUnits(Files(S))[i] : i \in 1..Len(AllUnits(Files(S)))} : v.u \in TxUnits}}

MonC03(S) ==
  LET ds == Delivered(S, 0)
      n  == Len(ds)
      Z(w, k) == F("C03." \o w, S, [what |-> w, got |-> 0, want |-> 0, k |-> k, c |-> 0, typ |-> 0])
  IN UNION {
       (IF ds[k].now = (IF k = 1 THEN StartPos(S) ELSE ds[k - 1].next) \/ ds[k].now \in RotTargets(S)
        THEN {} ELSE {Z("chain", k)}) \cup
       (IF ds[k].next.file = ds[k].now.file /\ ds[k].next.off \in CommitEnds(S) THEN {} ELSE {Z("end-label", k)}) \cup
       \* the resumed stream k (attempt 1000+k-1) asked for exactly that label and delivered exactly the rest
       (IF ~Scen(S).resume THEN {}
        ELSE LET a   == 1000 + k - 1
                 rs  == Delivered(S, a)
                 dmp == SelectSeq(LinesAtt(S, "cmd", a), LAMBDA x : x.kind = "dump")
                 same(i) == rs[i].now = ds[k + i].now /\ rs[i].next = ds[k + i].next /\ rs[i].ts = ds[k + i].ts /\ rs[i].evs = ds[k + i].evs
             IN (IF Len(dmp) = 1 /\ dmp[1].file = ds[k].next.file /\ dmp[1].off = ds[k].next.off THEN {} ELSE {Z("resume-request", k)}) \cup
                (IF Len(rs) = n - k /\ \A i \in 1..Min(Len(rs), n - k) : same(i) THEN {} ELSE {Z("resume-remaining", k)}))
     : k \in 1..n}

(***************************************************************************)
(* Dispatch and the replay state machine.                                  *)
(***************************************************************************)
Mon(p, S) ==
  CASE p = "C01" -> MonC01(S)
    [] p = "C02" -> MonC02(S)
    [] p = "C03" -> MonC03(S)

Failures(S) == UNION {Mon(p, S) : p \in Props}

TInit == l = 1 /\ s0 = 0 /\ nviol = 0 /\ nscen = 0

TNext ==
  /\ l <= Len(Trace)
  /\ l' = l + 1
  /\ LET e == Trace[l] IN
       /\ s0' = IF e.ev = "scenario" THEN l ELSE s0
       /\ nscen' = IF e.ev = "scenario" THEN nscen + 1 ELSE nscen
       /\ IF e.ev = "end"
          THEN LET bad == Failures([from |-> s0, to |-> l]) IN
                 /\ nviol' = nviol + Cardinality(bad)
                 /\ \A b \in bad : PrintT(<<"MONFAIL", ToJson(b)>>)
          ELSE UNCHANGED nviol

TSpec == TInit /\ [][TNext]_tvars

\* the whole file was consumed (checked as a POSTCONDITION): one state per line plus the initial one
AllConsumed == TLCGet("stats").diameter - 1 = Len(Trace)

Summary == l = Len(Trace) + 1 => PrintT(<<"SUMMARY", nscen, nviol>>)
=============================================================================
