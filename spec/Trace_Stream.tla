---------------------------- MODULE Trace_Stream ----------------------------
(***************************************************************************)
(* Trace validation for the stream family.  The harness drives the REAL    *)
(* Streamer against a simulated master and records one ndjson line per     *)
(* observable event (DESIGN.md Appendix B).  This module replays the file: *)
(* the transition relation consumes one line per step; at the `end` line of*)
(* each scenario the monitors of the selected properties are evaluated on  *)
(* what was observed, with expectations computed from the scenario header  *)
(* by the declarative semantics (BinlogSem), the parser model (Streamer)   *)
(* and the format transcription (CellCodec).                               *)
(*                                                                         *)
(* A failed monitor prints one line  <<"MONFAIL", json>>  and increments   *)
(* nviol; the driver turns these into VIOLATION / KNOWN-FINDING lines.     *)
(***************************************************************************)
EXTENDS Streamer, CellCodec, Json

CONSTANTS TraceFile, Props

Trace == ndJsonDeserialize(TraceFile)

VARIABLES l, s0, nviol, nscen
tvars == <<l, s0, nviol, nscen>>

(***************************************************************************)
(* Accessors on a scenario slice S = [from, to] of the trace.              *)
(***************************************************************************)
Scen(S) == Trace[S.from]
Lines(S, evname) == SelectSeq(SubSeq(Trace, S.from, S.to), LAMBDA x : x.ev = evname)
LinesAtt(S, evname, a) == SelectSeq(SubSeq(Trace, S.from, S.to), LAMBDA x : x.ev = evname /\ x.att = a)
Delivered(S, a) == LinesAtt(S, "deliver", a)

StartPos(S) == Scen(S).start
Files(S) == Scen(S).files
ExpectedFrom(S, pos) == Committed(UnitsFrom(Files(S), pos), pos)

F(mon, S, info) == [mon |-> mon, id |-> Scen(S).id, fam |-> Scen(S).fam, info |-> info]

(***************************************************************************)
(* Matching an observed delivery against an expected transaction.          *)
(***************************************************************************)
WInsert == <<105, 110, 115, 101, 114, 116>>
WUpdate == <<117, 112, 100, 97, 116, 101>>
WDelete == <<100, 101, 108, 101, 116, 101>>
KindWord(k) == CASE k = "write" -> WInsert [] k = "update" -> WUpdate [] k = "delete" -> WDelete

\* first word of a statement, lower-cased (C02: boundary and statement keywords in any letter case)
RECURSIVE FirstWord(_)
FirstWord(sql) == IF sql = <<>> \/ Head(sql) = 32 THEN <<>> ELSE <<Lower(Head(sql))>> \o FirstWord(Tail(sql))

\* failures of one row image: set of [c, what]
ImageFails(drow, cells, cols) ==
  IF Len(drow) # Len(cols) THEN {[c |-> 0, what |-> "column-count", typ |-> 0]}
  ELSE UNION {
    LET d == drow[c]  x == cells[c]  col == cols[c] IN
      (IF d.name # col.name THEN {[c |-> c, what |-> "name", typ |-> col.typ]} ELSE {}) \cup
      (IF d.typ # col.typ THEN {[c |-> c, what |-> "type", typ |-> col.typ]} ELSE {}) \cup
      (IF d.st # x.st THEN {[c |-> c, what |-> "null/absent/value state", typ |-> col.typ]}
       ELSE IF x.st = "val" /\ ~CellMatches(col.typ, col.metab, x.bytes, col.uns, x.tz, d)
            THEN {[c |-> c, what |-> "value", typ |-> col.typ]}
       ELSE IF x.st = "null" /\ d.hasdata THEN {[c |-> c, what |-> "data on NULL", typ |-> col.typ]}
       ELSE {})
    : c \in 1..Len(cols)}

ImagesFail(dimgs, rows, side, cols) ==
  IF Len(dimgs) # Len(rows) THEN {[c |-> 0, what |-> "row-count", typ |-> 0]}
  ELSE UNION {ImageFails(dimgs[r], IF side = "a" THEN rows[r].a ELSE rows[r].b, cols) : r \in 1..Len(rows)}

\* failures of one change: set of [what, ...]
ChangeFails(de, e, deep) ==
  IF e.k = "query"
  THEN (IF de.typ = FirstWord(e.sql) /\ de.sql = e.sql /\ de.qdb = e.db /\ de.cs = e.cs /\ de.db = <<>> /\ de.tbl = <<>>
           /\ de.ts = e.ts /\ de.vals = <<>> /\ de.ids = <<>> THEN {} ELSE {[c |-> 0, what |-> "statement", typ |-> 0]})
  ELSE (IF de.typ = KindWord(e.k) /\ de.sql = <<>> /\ de.ts = e.ts THEN {} ELSE {[c |-> 0, what |-> "kind/ts", typ |-> 0]}) \cup
       (IF de.db = e.tbl.db /\ de.tbl = e.tbl.name THEN {} ELSE {[c |-> 0, what |-> "table", typ |-> 0]}) \cup
       (IF ~deep THEN {}
        ELSE (IF e.k \in {"write", "update"} THEN ImagesFail(de.vals, e.rows, "a", e.tbl.cols)
              ELSE IF de.vals = <<>> THEN {} ELSE {[c |-> 0, what |-> "after-image on delete", typ |-> 0]}) \cup
             (IF e.k \in {"update", "delete"} THEN ImagesFail(de.ids, e.rows, "b", e.tbl.cols)
              ELSE IF de.ids = <<>> THEN {} ELSE {[c |-> 0, what |-> "before-image on insert", typ |-> 0]}))

TxFails(d, x, deep) ==
  (IF d.now = x.now THEN {} ELSE {[c |-> 0, what |-> "now-label", typ |-> 0]}) \cup
  (IF d.next = x.next THEN {} ELSE {[c |-> 0, what |-> "next-label", typ |-> 0]}) \cup
  (IF d.ts = x.ts THEN {} ELSE {[c |-> 0, what |-> "timestamp", typ |-> 0]}) \cup
  (IF Len(d.evs) # Len(x.changes) THEN {[c |-> 0, what |-> "number of changes", typ |-> 0]}
   ELSE UNION {ChangeFails(d.evs[j], x.changes[j], deep) : j \in 1..Len(x.changes)})

\* compare a whole delivered sequence with the expected one
SeqFails(mon, S, ds, xs, deep) ==
  (IF Len(ds) = Len(xs) THEN {}
   ELSE {F(mon, S, [what |-> "number of transactions", got |-> Len(ds), want |-> Len(xs), k |-> 0, c |-> 0, typ |-> 0])}) \cup
  UNION {{F(mon, S, [what |-> f.what, got |-> 0, want |-> 0, k |-> k, c |-> f.c, typ |-> f.typ]) : f \in TxFails(ds[k], xs[k], deep)}
         : k \in 1..Min2(Len(ds), Len(xs))}

(***************************************************************************)
(* C01: end-to-end fidelity (single fault-free attempt).                   *)
(***************************************************************************)
MonC01(S) ==
  \* a stream that the caller ended by cancellation may stop anywhere: then what was delivered must be a prefix
  (LET ds == Delivered(S, 0)
       xs == ExpectedFrom(S, StartPos(S))
       cancelled == Scen(S).attempts[1].end = "cancel" /\ Len(ds) <= Len(xs)
   IN SeqFails("C01.fidelity", S, ds, IF cancelled THEN Sub(xs, 1, Len(ds)) ELSE xs, TRUE)) \cup
  \* nothing else: the stream ended cleanly
  {F("C01.clean-end", S, [what |-> "stream did not end cleanly", got |-> 0, want |-> 0, k |-> 0, c |-> 0, typ |-> 0]) :
     x \in {y \in {Lines(S, "streamReturn")[i] : i \in 1..Len(Lines(S, "streamReturn"))} : y.att = 0 /\ (~y.returned \/ ~y.res.nil)}}

(***************************************************************************)
(* C02: grouping (contents ignored) and causality: when the handler is     *)
(* entered for transaction k the master has already sent k's commit packet.*)
(***************************************************************************)
\* 1-based index in the served packet sequence of the first event ending at offset off
RECURSIVE IndexOfEnd(_, _, _)
IndexOfEnd(evs, off, i) ==
  IF evs = <<>> THEN 0 ELSE IF ~Head(evs).fake /\ Head(evs).end = off THEN i ELSE IndexOfEnd(Tail(evs), off, i + 1)

MonC02(S) ==
  LET ds == Delivered(S, 0)
      xs == ExpectedFrom(S, StartPos(S))
      lock == Scen(S).attempts[1].pacing = "lockstep"
      rr == Lines(S, "reread")
  IN SeqFails("C02.grouping", S, ds, xs, FALSE) \cup
     \* the changes of a delivered transaction stay where they were delivered (re-read after the stream ended)
     UNION {LET d == SelectSeq(ds, LAMBDA x : x.gk = rr[i].gk) IN
            IF Len(d) = 1 /\ (Len(rr[i].evs) # Len(d[1].evs) \/ \E j \in 1..Min2(Len(rr[i].evs), Len(d[1].evs)) :
                                 rr[i].evs[j].typ # d[1].evs[j].typ \/ rr[i].evs[j].tbl # d[1].evs[j].tbl \/ rr[i].evs[j].sql # d[1].evs[j].sql
                                 \/ rr[i].evs[j].ts # d[1].evs[j].ts \/ Len(rr[i].evs[j].vals) # Len(d[1].evs[j].vals) \/ Len(rr[i].evs[j].ids) # Len(d[1].evs[j].ids))
            THEN {F("C02.grouping-stable", S, [what |-> "changes of a delivered transaction changed / moved after delivery", got |-> 0, want |-> 0, k |-> d[1].k + 1, c |-> 0, typ |-> 0])}
            ELSE {}
            : i \in 1..Len(rr)} \cup
     (IF ~lock THEN {}
      ELSE UNION {
        \* packets of the served stream up to and including the commit event of transaction k: the two
        \* artificial events, the per-file extras are only ever MORE packets, so this is a lower bound
        LET evs == Served(Files(S), StartPos(S))
            idx == IndexOfEnd(evs, ds[k].next.off, 1)
        IN IF idx > 0 /\ ds[k].sent < idx
           THEN {F("C02.before-commit", S, [what |-> "delivered before its commit event was sent", got |-> ds[k].sent, want |-> idx, k |-> k, c |-> 0, typ |-> 0])}
           ELSE {}
        : k \in 1..Len(ds)})

(***************************************************************************)
(* C03: labels chain; every end label is an exact resume point.            *)
(***************************************************************************)
RotTargets(S) ==
  {[file |-> u.evs[1].rotfile, off |-> u.evs[1].rotpos] : u \in {AllUnits(Files(S))[i] : i \in 1..Len(AllUnits(Files(S)))} \cap
      {v \in {AllUnits(Files(S))[i] : i \in 1..Len(AllUnits(Files(S)))} : v.u = "rotate"}}

CommitEnds(S) ==
  {Last(u.evs).end : u \in {v \in {AllUnits(Files(S))[i] : i \in 1..Len(AllUnits(Files(S)))} : v.u \in TxUnits}}

MonC03(S) ==
  LET ds == Delivered(S, 0)
      n  == Len(ds)
      Z(w, k) == F("C03." \o w, S, [what |-> w, got |-> 0, want |-> 0, k |-> k, c |-> 0, typ |-> 0])
  IN UNION {
       (IF ds[k].now = (IF k = 1 THEN StartPos(S) ELSE ds[k - 1].next) \/ ds[k].now \in RotTargets(S)
        THEN {} ELSE {Z("chain", k)}) \cup
       (IF ds[k].next.file = ds[k].now.file /\ ds[k].next.off \in CommitEnds(S) THEN {} ELSE {Z("end-label", k)}) \cup
       \* the resumed stream k (attempt 1000+k-1) asked for exactly that label and delivered exactly the rest
       (IF ~Scen(S).resume THEN {}
        ELSE LET a   == 1000 + k - 1
                 rs  == Delivered(S, a)
                 dmp == SelectSeq(LinesAtt(S, "cmd", a), LAMBDA x : x.kind = "dump")
                 same(i) == rs[i].now = ds[k + i].now /\ rs[i].next = ds[k + i].next /\ rs[i].ts = ds[k + i].ts /\ rs[i].evs = ds[k + i].evs
             IN (IF Len(dmp) = 1 /\ dmp[1].file = ds[k].next.file /\ dmp[1].off = ds[k].next.off THEN {} ELSE {Z("resume-request", k)}) \cup
                (IF Len(rs) = n - k /\ \A i \in 1..Min2(Len(rs), n - k) : same(i) THEN {} ELSE {Z("resume-remaining", k)}))
     : k \in 1..n}

(***************************************************************************)
(* Attempts of a scenario, accepted transactions, resume points.           *)
(***************************************************************************)
NAttempts(S) == Len(Scen(S).attempts)
Plan(S, a) == Scen(S).attempts[a + 1]

\* the handler accepted delivery d (its handlerReturn line says nil)
AcceptedLine(S, d) ==
  \E i \in S.from..S.to : Trace[i].ev = "handlerReturn" /\ Trace[i].att = d.att /\ Trace[i].k = d.k /\ Trace[i].res.nil
\* accepted deliveries of the regular attempts (not the C03 resume streams), in trace order
Accepted(S) == SelectSeq(SubSeq(Trace, S.from, S.to), LAMBDA x : x.ev = "deliver" /\ x.att < 1000 /\ AcceptedLine(S, x))
AcceptedBefore(S, a) == SelectSeq(Accepted(S), LAMBDA x : x.att < a)

BoundariesOf(files) ==
  UNION {{[file |-> files[i].name, off |-> files[i].first]} \cup
         {[file |-> files[i].name, off |-> Last(files[i].units[j].evs).end] :
            j \in {x \in 1..Len(files[i].units) : files[i].units[x].u \in TxUnits}}
         : i \in 1..Len(files)}

NextLabels(txs) == [i \in 1..Len(txs) |-> txs[i].next]

\* the positions from which exactly the transactions after the first n expected ones follow
EquivB(S, n) ==
  LET xs == ExpectedFrom(S, StartPos(S)) IN
  {p \in BoundariesOf(Files(S)) :
     NextLabels(Committed(UnitsFrom(Files(S), p), p)) = NextLabels(Sub(xs, n + 1, Len(xs)))}

DumpOf(S, a) == SelectSeq(LinesAtt(S, "cmd", a), LAMBDA x : x.kind = "dump")
PosOfCmd(c) == [file |-> c.file, off |-> c.off]
StreamRet(S, a) == LinesAtt(S, "streamReturn", a)

Z(mon, S, w, a, k) == F(mon, S, [what |-> w, got |-> a, want |-> 0, k |-> k, c |-> 0, typ |-> 0])

\* is attempt a fault-free (nothing in its plan can end it early)?
CleanPlan(p) ==
  p.fault.kind = "none" /\ p.inject.kind = "none" /\ p.connfault = "none" /\ p.handlerErrAt < 0 /\ p.mapperFault = "none"
  /\ p.cancelAtTx < 0 /\ p.cancelAtPkt < 0 /\ ~p.dead /\ p.end = "eof"

(***************************************************************************)
(* C04: exactly once across failures and restarts.                         *)
(***************************************************************************)
MonC04(S) ==
  LET acc == Accepted(S)
      xs  == ExpectedFrom(S, StartPos(S))
      n   == NAttempts(S)
      bad == {i \in 1..Min2(Len(acc), Len(xs)) : TxFails(acc[i], xs[i], FALSE) # {}}
  IN (IF Len(acc) > Len(xs) THEN {Z("C04.exactly-once", S, "more accepted transactions than committed", Len(acc), Len(xs))} ELSE {}) \cup
     {Z("C04.exactly-once", S, "accepted sequence is not the committed sequence (skip/repeat/reorder)", acc[i].att, i) : i \in bad} \cup
     (IF CleanPlan(Plan(S, n - 1)) /\ Len(acc) < Len(xs)
      THEN {Z("C04.complete", S, "transactions missing after a clean final attempt", Len(acc), Len(xs))} ELSE {}) \cup
     UNION {
       LET d == DumpOf(S, a) IN
       IF Len(d) = 0 \/ (\E i \in S.from..S.to : Trace[i].ev = "setpos" /\ Trace[i].att <= a) THEN {}
       ELSE IF PosOfCmd(d[1]) \in EquivB(S, Len(AcceptedBefore(S, a))) THEN {}
       ELSE {Z("C04.resume-position", S, "dump request is not at the boundary after the last accepted transaction", a, Len(AcceptedBefore(S, a)))}
     : a \in 1..(n - 1)}

(***************************************************************************)
(* C07: the handshake asks for exactly the configured stream.              *)
(***************************************************************************)
\* does text t (lower-cased) contain the word w?
Contains(t, w) == \E i \in 1..(Len(t) - Len(w) + 1) : Sub(t, i, i + Len(w) - 1) = w
WChecksum == <<64, 109, 97, 115, 116, 101, 114, 95, 98, 105, 110, 108, 111, 103, 95, 99, 104, 101, 99, 107, 115, 117, 109>>  \* @master_binlog_checksum
WSet == <<115, 101, 116>>

\* explicit re-positioning before attempt a (the latest one), if any
SetPosFor(S, a) == SelectSeq(SubSeq(Trace, S.from, S.to), LAMBDA x : x.ev = "setpos" /\ x.att <= a)

MonC07(S) ==
  UNION {
    LET cmds == SelectSeq(LinesAtt(S, "cmd", a), LAMBDA x : x.kind # "quit")
        sp   == SetPosFor(S, a)
    IN IF Len(cmds) = 0
       THEN \* no command reached the master: allowed only when no connection could be established (master down, handshake
            \* refused) or the caller cancelled; a reachable master must be asked
            (IF ~Plan(S, a).dead /\ Plan(S, a).connfault \notin {"handshake_close", "handshake_err"} /\ Len(LinesAtt(S, "cancel", a)) = 0
                /\ Len(StreamRet(S, a)) = 1 /\ StreamRet(S, a)[1].returned /\ a < 1000
             THEN {Z("C07.sequence", S, "Stream returned without sending any command to a reachable master", a, 0)} ELSE {})
       ELSE
        \* exactly one dump request and nothing after it (other queries before it are not forbidden); no dump at all only
        \* when the master rejected the SET or dropped the connection itself before the request could arrive
        (LET dumps == {i \in 1..Len(cmds) : cmds[i].kind = "dump"}
             noDumpOk == (\E i \in 1..Len(cmds) : cmds[i].kind = "query" /\ ~cmds[i].ok) \/ Plan(S, a).connfault = "set_then_reset"
         IN IF \/ (Cardinality(dumps) = 1 /\ \A i \in dumps : i = Len(cmds))
               \/ (dumps = {} /\ noDumpOk)
            THEN {} ELSE {Z("C07.sequence", S, "not exactly one dump request as the last command of the attempt", a, Cardinality(dumps))}) \cup
        (IF \E i \in 1..Len(cmds) : cmds[i].kind = "query" /\ ~cmds[i].ok /\ \E j \in 1..Len(cmds) : j > i /\ cmds[j].kind = "dump"
         THEN {Z("C07.checksum-first", S, "dump requested although SET @master_binlog_checksum was rejected by the master", a, 0)} ELSE {}) \cup
        \* every dump request is preceded by the checksum announcement (an attempt whose dump request never arrived owes nothing)
        (IF \A j \in 1..Len(cmds) : cmds[j].kind = "dump" =>
               \E i \in 1..(j - 1) : cmds[i].kind = "query" /\ Contains(LowerSeq(cmds[i].sql), WChecksum) /\ Take(LowerSeq(cmds[i].sql), 3) = WSet
                                     /\ cmds[i].conn = cmds[j].conn      \* the announcement is per connection: on the one that asks for the dump
         THEN {} ELSE {Z("C07.checksum-first", S, "no SET @master_binlog_checksum before the dump request (on the connection that sends it)", a, 0)}) \cup
        UNION {
          IF cmds[j].kind # "dump" THEN {}
          ELSE (IF cmds[j].flags % 2 = 0 THEN {} ELSE {Z("C07.blocking", S, "BINLOG_DUMP_NON_BLOCK is set", a, cmds[j].flags)}) \cup
               (IF cmds[j].serverid = Scen(S).serverid THEN {} ELSE {Z("C07.server-id", S, "server id differs from the configured one", a, 0)}) \cup
               (LET p == PosOfCmd(cmds[j]) IN
                IF Len(sp) > 0 /\ sp[Len(sp)].att = a THEN (IF p = sp[Len(sp)].pos THEN {} ELSE {Z("C07.position", S, "not the position given to SetBinlogPosition", a, 0)})
                ELSE IF a = 0 THEN (IF p = StartPos(S) THEN {} ELSE {Z("C07.position", S, "first attempt does not ask for the position given to SetBinlogPosition", a, 0)})
                ELSE IF Files(S) = <<>> THEN
                       \* nothing was ever served: the stored position is still the last explicit one
                       (IF p = (IF Len(sp) > 0 THEN sp[Len(sp)].pos ELSE StartPos(S)) THEN {} ELSE {Z("C07.position", S, "later attempt does not ask for the stored position", a, 0)})
                ELSE IF Len(sp) > 0 THEN {}
                ELSE (IF p \in EquivB(S, Len(AcceptedBefore(S, a))) THEN {} ELSE {Z("C07.position", S, "later attempt does not ask for the stored resume position", a, 0)}))
          : j \in 1..Len(cmds)}
    : a \in 0..(NAttempts(S) - 1)}

(***************************************************************************)
(* C17 (stream half): a malformed packet ends the stream with an error,    *)
(* no partial transaction, resume position at the last accepted boundary.  *)
(***************************************************************************)
MonC17(S) ==
  UNION {
    LET p   == Plan(S, a)
        at  == SelectSeq(LinesAtt(S, "attempt", a), LAMBDA x : TRUE)
        ret == StreamRet(S, a)
        ds  == Delivered(S, a)
        xs  == ExpectedFrom(S, StartPos(S))
        nb  == Len(AcceptedBefore(S, a))
    IN IF p.inject.kind # "invalid" THEN {}
       ELSE (IF Len(ret) = 1 /\ ret[1].returned /\ ~ret[1].res.nil THEN {}
             ELSE {Z("C17.error", S, "Stream did not return a non-nil error for a malformed packet", a, 0)}) \cup
            \* exactly the transactions whose commit packet came before the malformed one were delivered
            (IF a = 0 /\ Len(at) = 1 /\ Len(ds) # at[1].nbefore
             THEN {Z("C17.no-partial", S, "deliveries differ from the transactions completed before the malformed packet", Len(ds), at[1].nbefore)} ELSE {}) \cup
            {Z("C17.no-partial", S, "a delivered transaction is not a committed one", a, i) :
               i \in {j \in 1..Len(ds) : nb + j > Len(xs) \/ (nb + j <= Len(xs) /\ TxFails(ds[j], xs[nb + j], FALSE) # {})}} \cup
            (LET d == DumpOf(S, a + 1) IN
             IF a + 1 >= NAttempts(S) \/ Len(d) = 0 THEN {}
             ELSE IF PosOfCmd(d[1]) \in EquivB(S, Len(AcceptedBefore(S, a + 1))) THEN {}
             ELSE {Z("C17.resume-position", S, "resume position moved by a malformed packet", a, 0)})
    : a \in 0..(NAttempts(S) - 1)} \cup
  {Z("C17.panic", S, "the process panicked", 0, 0) : x \in {i \in S.from..S.to : Trace[i].ev = "panic"}}

(***************************************************************************)
(* C05: Stream terminates, nothing is left behind, Error() never blocks,   *)
(* the handler is called only from within Stream, one call at a time.      *)
(***************************************************************************)
IndexOfLine(S, P(_)) == CHOOSE i \in S.from..S.to : P(Trace[i])

MonC05(S) ==
  UNION {
    LET ret  == StreamRet(S, a)
        ers  == LinesAtt(S, "errorReturn", a)
        sk   == LinesAtt(S, "sock", a)
        gr   == LinesAtt(S, "goroutines", a)
        ds   == Delivered(S, a)
        cmds == LinesAtt(S, "cmd", a)
        retIdx == IF Len(ret) = 1 THEN IndexOfLine(S, LAMBDA x : x.ev = "streamReturn" /\ x.att = a) ELSE 0
    IN (IF Len(ret) = 1 /\ ret[1].returned THEN {} ELSE {Z("C05.stream-returns", S, "Stream did not return within bounded time", a, 0)}) \cup
       {Z("C05.error-returns", S, "Error() did not return (blocked)", a, ers[i].call) : i \in {j \in 1..Len(ers) : ~ers[j].returned}} \cup
       (IF Len(ers) = 0 /\ ~Plan(S, a).skipError THEN {Z("C05.error-returns", S, "Error() was never observed to return", a, 0)} ELSE {}) \cup
       (IF Len(sk) = 1 /\ Len(cmds) > 0 /\ ~sk[1].masterEnded /\ ~sk[1].peerClosed
        THEN {Z("C05.connection-closed", S, "connection to the master still open after Stream returned", a, 0)} ELSE {}) \cup
       (IF Len(gr) = 1 /\ gr[1].n > 0 THEN {Z("C05.no-goroutine-left", S, "library goroutine remains after Stream returned", a, gr[1].n)} ELSE {}) \cup
       \* (the handler need not run on the caller's goroutine; it must run while Stream runs, one call at a time)
       {Z("C05.handler-discipline", S, "handler re-entered: two calls at a time", a, ds[i].k) :
          i \in {j \in 1..Len(ds) : ds[j].nested # 1}} \cup
       {Z("C05.handler-discipline", S, "handler called after Stream returned", a, Trace[i].k) :
          i \in {j \in S.from..S.to : Trace[j].ev = "deliver" /\ Trace[j].att = a /\ retIdx > 0 /\ j > retIdx}} \cup
       {Z("C05.handler-discipline", S, "handler still running when Stream returned", a, Trace[i].k) :
          i \in {j \in S.from..S.to : Trace[j].ev = "handlerReturn" /\ Trace[j].att = a /\ retIdx > 0 /\ j > retIdx}}
    : a \in 0..(NAttempts(S) - 1)}

(***************************************************************************)
(* C06: the reason a stream ended is reported.                             *)
(***************************************************************************)
MonC06(S) ==
  UNION {
    LET p    == Plan(S, a)
        ret  == StreamRet(S, a)
        ers  == LinesAtt(S, "errorReturn", a)
        sk   == LinesAtt(S, "sock", a)
        hr   == LinesAtt(S, "handlerReturn", a)
        mc   == LinesAtt(S, "mapperCall", a)
        hfail == \E i \in 1..Len(hr) : ~hr[i].res.nil
        mfail == \E i \in 1..Len(mc) : mc[i].res # "ok"
        dfail == p.inject.kind # "none" /\ Len(sk) = 1 /\ sk[1].sent > p.inject.at /\ p.cancelAtTx < 0 /\ p.cancelAtPkt < 0 /\ p.end = "eof"
        streamNil == Len(ret) = 1 /\ ret[1].returned /\ ret[1].res.nil
        e1   == IF Len(ers) > 0 /\ ers[1].returned THEN ers[1] ELSE [res |-> [nil |-> FALSE, text |-> <<>>], returned |-> FALSE]
        cancelled == Len(ret) = 1 /\ ret[1].cancelledBefore
        eofEnd == (p.fault.kind = "eof") \/ (p.fault.kind = "none" /\ p.end = "eof" /\ p.connfault = "none" /\ ~p.dead /\ p.inject.kind = "none")
        faultHit == p.fault.kind # "none" /\ Len(sk) = 1 /\ sk[1].sent >= p.fault.at /\ ~cancelled /\ ~hfail /\ ~mfail
    IN IF Len(ret) # 1 \/ ~ret[1].returned THEN {}   \* termination is C05's business
       ELSE
       (IF hfail /\ streamNil THEN {Z("C06.handler-failure", S, "Stream returned nil although the handler failed", a, 0)} ELSE {}) \cup
       (IF mfail /\ streamNil THEN {Z("C06.lookup-failure", S, "Stream returned nil although the table lookup failed or mismatched", a, 0)} ELSE {}) \cup
       (IF dfail /\ ~hfail /\ ~mfail /\ streamNil THEN {Z("C06.decode-failure", S, "Stream returned nil for an unsupported / undecodable event", a, 0)} ELSE {}) \cup
       (IF streamNil /\ e1.returned /\ e1.res.nil /\ ~cancelled /\ ~eofEnd
        THEN (IF p.cancelAfterReturn
              THEN {Z("C06.swallowed-after-late-cancel", S, "context cancelled after Stream returned: Error() reports a lost connection / master error as a clean end", a, 0)}
              ELSE {Z("C06.swallowed", S, "Stream and Error() both nil although the stream ended neither by cancellation nor by EOF", a, 0)})
        ELSE {}) \cup
       (IF streamNil /\ faultHit /\ p.fault.kind = "err" /\ e1.returned /\ ~e1.res.nil /\ ~Contains(e1.res.text, p.fault.msg)
        THEN {Z("C06.master-message", S, "Error() does not carry the master's error message", a, 0)} ELSE {})
    : a \in 0..(NAttempts(S) - 1)}

(***************************************************************************)
(* C08: delivered transactions are stable.                                 *)
(***************************************************************************)
\* the projection of a delivery with every value byte replaced by pattern pat (the handler's own scribbles)
ScribbledRow(row, pat) == [c \in 1..Len(row) |-> [row[c] EXCEPT !.data = [i \in 1..Len(row[c].data) |-> (pat + (c - 1)) % 256],
                                                              !.fbits = row[c].fbits]]
\* the handler gives every value a pattern of its own: pat + 7 * event + 3 * row + column (+ 50 for before images), all
\* 0-based, modulo 256 - two values that share storage cannot both hold the bytes expected here
ScribbledEvs(evs, pat) ==
  [j \in 1..Len(evs) |-> [evs[j] EXCEPT !.cs = IF evs[j].cs = <<>> THEN <<>>
                                                ELSE LET p == (pat + 7 * (j - 1)) % 256 IN <<p, p + 1, p + 2>>,   \* the session charset, rewritten too
                                         !.vals = [r \in 1..Len(evs[j].vals) |-> ScribbledRow(evs[j].vals[r], pat + 7 * (j - 1) + 3 * (r - 1))],
                                         !.ids  = [r \in 1..Len(evs[j].ids)  |-> ScribbledRow(evs[j].ids[r], pat + 7 * (j - 1) + 3 * (r - 1) + 50)]]]
\* compare ignoring the float parse-back annotation (it is recomputed from the current bytes)
NoFb(evs) ==
  [j \in 1..Len(evs) |-> [evs[j] EXCEPT !.vals = [r \in 1..Len(evs[j].vals) |-> [c \in 1..Len(evs[j].vals[r]) |-> [evs[j].vals[r][c] EXCEPT !.fbits = <<>>]]],
                                         !.ids  = [r \in 1..Len(evs[j].ids)  |-> [c \in 1..Len(evs[j].ids[r])  |-> [evs[j].ids[r][c]  EXCEPT !.fbits = <<>>]]]]]

MonC08(S) ==
  LET rr == Lines(S, "reread")
      dl == SelectSeq(SubSeq(Trace, S.from, S.to), LAMBDA x : x.ev = "deliver" /\ x.att < 1000)
  IN UNION {
       LET r == rr[i]
           ds == SelectSeq(dl, LAMBDA x : x.gk = r.gk)
       IN IF Len(ds) # 1 THEN {}
          ELSE LET d == ds[1]
                   want == IF d.pat < 0 THEN NoFb(d.evs) ELSE NoFb(ScribbledEvs(d.evs, d.pat))
               IN (IF r.now = d.now /\ r.next = d.next /\ r.ts = d.ts THEN {} ELSE {Z("C08.stable", S, "positions or timestamp of a delivered transaction changed", d.att, d.k)}) \cup
                  (IF NoFb(r.evs) = want THEN {}
                   ELSE {Z("C08.stable", S, IF d.pat < 0 THEN "contents of a delivered transaction changed after delivery"
                                                          ELSE "overwriting one delivered value changed another delivered value", d.att, d.k)})
     : i \in 1..Len(rr)} \cup
     \* later deliveries still equal the oracle although earlier ones were overwritten by the handler
     SeqFails("C08.later-deliveries", S, Delivered(S, 0), ExpectedFrom(S, StartPos(S)), TRUE)

(***************************************************************************)
(* C15 (stream half): attribution to the table announced for the id, types *)
(* of the most recent table map, names/signedness from the mapper by       *)
(* ordinal, a mapper table of another column count is rejected.            *)
(***************************************************************************)
AnnouncedTables(S) ==
  {[db |-> e.tbl.db, name |-> e.tbl.name] :
     e \in UNION {{AllUnits(Files(S))[i].evs[j] : j \in 1..Len(AllUnits(Files(S))[i].evs)} : i \in 1..Len(AllUnits(Files(S)))} \cap
           {x \in UNION {{AllUnits(Files(S))[i].evs[j] : j \in 1..Len(AllUnits(Files(S))[i].evs)} : i \in 1..Len(AllUnits(Files(S)))} : x.k = "tablemap"}}

MonC15(S) ==
  UNION {
    LET p   == Plan(S, a)
        ds  == Delivered(S, a)
        xs  == ExpectedFrom(S, StartPos(S))
        nb  == Len(AcceptedBefore(S, a))
        at  == LinesAtt(S, "attempt", a)
        mc  == LinesAtt(S, "mapperCall", a)
        ret == StreamRet(S, a)
        mismatched == \E i \in 1..Len(mc) : mc[i].res = "mismatch"
    IN \* every delivery of the attempt matches the oracle in depth: table, column names, types, values
       UNION {{F("C15.attribution", S, [what |-> f.what, got |-> a, want |-> 0, k |-> j, c |-> f.c, typ |-> f.typ]) :
                 f \in IF nb + j <= Len(xs) THEN TxFails(ds[j], xs[nb + j], TRUE) ELSE {[c |-> 0, what |-> "unexpected transaction", typ |-> 0]}}
              : j \in 1..Len(ds)} \cup
       \* the mapper is asked about announced tables only
       {Z("C15.mapper-call", S, "the table mapper was asked for a table that was never announced", a, i) :
          i \in {j \in 1..Len(mc) : [db |-> mc[j].db, name |-> mc[j].tbl] \notin AnnouncedTables(S)}} \cup
       (IF mismatched /\ ~(Len(ret) = 1 /\ ret[1].returned /\ ~ret[1].res.nil)
        THEN {Z("C15.mismatch-rejected", S, "a mapper table with another column count did not end the stream with an error", a, 0)} ELSE {}) \cup
       (IF mismatched /\ Len(at) = 1 /\ at[1].nbefore >= 0 /\ Len(ds) # at[1].nbefore
        THEN {Z("C15.mismatch-rejected", S, "transactions delivered although the mapper's table mismatched", Len(ds), at[1].nbefore)} ELSE {})
    : a \in 0..(NAttempts(S) - 1)} \cup
  \* a table re-announced under the same id and name with another column count than the mapper's table: error, no delivery
  (IF Scen(S).rejectAfter < 0 THEN {}
   ELSE LET ret == StreamRet(S, 0)  ds == Delivered(S, 0) IN
        (IF Len(ret) = 1 /\ ret[1].returned /\ ~ret[1].res.nil THEN {}
         ELSE {Z("C15.mismatch-rejected", S, "rows of a table map whose column count disagrees with the mapper's table did not end the stream with an error", 0, 0)}) \cup
        (IF Len(ds) = Scen(S).rejectAfter THEN {}
         ELSE {Z("C15.mismatch-rejected", S, "transactions delivered although the table map's column count disagrees with the mapper's table", Len(ds), Scen(S).rejectAfter)}))

(***************************************************************************)
(* DRIFT.conn: implementation-level conformance of the concurrency model.  *)
(* For attempts recorded with hook tracing, the sequence of hook points of *)
(* each goroutine must be a path of the control structure MC_Conn gives    *)
(* that goroutine (its pc values), and the cross-goroutine causality the   *)
(* model relies on must hold in the recorded order.  A failure does NOT    *)
(* decide a property: it says the model no longer describes the code       *)
(* (reported as MODEL-DRIFT by the driver).                                *)
(***************************************************************************)
\* reader goroutine: MC_Conn's rpc
RNext(pc, h) ==
  CASE pc = "read"     /\ h = "reader.read"        -> {"read"}
    [] pc = "read"     /\ h = "reader.handoff"     -> {"handoff"}
    [] pc = "read"     /\ h = "reader.readError"   -> {"pub"}
    [] pc = "handoff"  /\ h = "reader.handedOff"   -> {"read"}
    [] pc = "handoff"  /\ h = "reader.sawCtx"      -> {"pub"}
    [] pc = "handoff"  /\ h = "reader.sawDone"     -> {"closeErr"}
    [] pc = "pub"      /\ h = "reader.published"   -> {"closeErr"}
    [] pc = "closeErr" /\ h = "reader.closeEvents" -> {"closeEv"}
    [] pc = "closeEv"  /\ h = "reader.exit"        -> {"exit"}
    [] OTHER -> {}
\* caller goroutine: MC_Conn's spc (connect/set/dump are one stage here: they have no hook of their own)
SNext(pc, h) ==
  CASE pc = "idle"    /\ h = "stream.call"       -> {"connect"}
    [] pc = "connect" /\ h = "stream.spawned"    -> {"select"}
    [] pc = "connect" /\ h = "close.begin"       -> {"closed"}          \* SET / dump request failed: connection closed, error returned
    [] pc = "select"  /\ h = "parser.select"     -> {"select"}
    [] pc = "select"  /\ h = "parser.gotEvent"   -> {"select"}
    [] pc = "select"  /\ h = "parser.handlerCall" -> {"handler"}
    [] pc = "handler" /\ h = "parser.handlerOk"  -> {"select"}
    [] pc = "handler" /\ h = "parser.handlerErr" -> {"closing"}
    [] pc = "select"  /\ h = "parser.sawClosed"  -> {"closing"}
    [] pc = "select"  /\ h = "parser.sawCtx"     -> {"closing"}
    [] pc = "select"  /\ h = "stream.parsed"     -> {"closing"}         \* parseEvents returned an error of its own (decode / lookup)
    [] pc = "closing" /\ h = "stream.parsed"     -> {"closing"}
    [] pc = "closing" /\ h = "close.begin"       -> {"closed"}
    [] pc = "closed"  /\ h = "close.end"         -> {"idle"}
    [] OTHER -> {}

RECURSIVE RunAuto(_, _, _, _)
\* set of states reachable by the hook sequence hs from the set of states ps under Nx; {} = the sequence is not a path
RunAuto(Nx(_, _), hs, ps, i) ==
  IF i > Len(hs) \/ ps = {} THEN ps ELSE RunAuto(Nx, hs, UNION {Nx(p, hs[i]) : p \in ps}, i + 1)

ReaderHooks == {"reader.read", "reader.handoff", "reader.readError", "reader.handedOff", "reader.sawCtx", "reader.sawDone",
                "reader.published", "reader.closeEvents", "reader.exit"}

MonDrift(S) ==
  UNION {
    LET lines == SubSeq(Trace, S.from, S.to)
        hooks == SelectSeq(lines, LAMBDA x : x.ev = "hook" /\ x.att = a)
        rh    == SelectSeq(hooks, LAMBDA x : x.p \in ReaderHooks)
        sh    == SelectSeq(hooks, LAMBDA x : x.p \notin ReaderHooks)
        names(q) == [i \in 1..Len(q) |-> q[i].p]
        \* positions (in the scenario slice) of the attempt's lines of interest
        pos(P(_)) == {i \in 1..Len(lines) : P(lines[i])}
        isH(x, n) == x.ev = "hook" /\ x.att = a /\ x.p = n
        firstOf(n) == IF pos(LAMBDA x : isH(x, n)) = {} THEN 0 ELSE CHOOSE i \in pos(LAMBDA x : isH(x, n)) : \A j \in pos(LAMBDA x : isH(x, n)) : i <= j
        cancelPos == pos(LAMBDA x : x.ev = "cancel" /\ x.att = a)
        before(n, m) == firstOf(n) = 0 \/ (firstOf(m) # 0 /\ firstOf(m) < firstOf(n))      \* n happened => m happened before it
        nGot == Cardinality(pos(LAMBDA x : isH(x, "parser.gotEvent")))
        nOff == Cardinality(pos(LAMBDA x : isH(x, "reader.handoff")))
        nDone == Cardinality(pos(LAMBDA x : isH(x, "reader.handedOff")))
        D(w) == F("DRIFT.conn", S, [what |-> w, got |-> a, want |-> 0, k |-> 0, c |-> 0, typ |-> 0])
    IN IF ~Plan(S, a).hookTrace \/ Len(hooks) = 0 THEN {}
       ELSE
        (IF RunAuto(RNext, names(rh), {"read"}, 1) # {} \/ Len(rh) = 0 THEN {} ELSE {D("the reader goroutine's hook sequence is not a path of MC_Conn's reader")}) \cup
        (IF RunAuto(SNext, names(sh), {"idle"}, 1) # {} THEN {} ELSE {D("the caller goroutine's hook sequence is not a path of MC_Conn's caller")}) \cup
        (IF Cardinality({rh[i].g : i \in 1..Len(rh)}) <= 1 /\ Cardinality({sh[i].g : i \in 1..Len(sh)}) <= 1
            /\ {rh[i].g : i \in 1..Len(rh)} \cap {sh[i].g : i \in 1..Len(sh)} = {}
         THEN {} ELSE {D("hook points are not on exactly one reader goroutine and one caller goroutine")}) \cup
        (IF before("reader.sawDone", "close.begin") THEN {} ELSE {D("reader saw the done channel closed before close() began")}) \cup
        (IF before("parser.sawClosed", "reader.closeEvents") THEN {} ELSE {D("parser saw the event channel closed before the reader closed it")}) \cup
        (IF (firstOf("reader.sawCtx") = 0 /\ firstOf("parser.sawCtx") = 0) \/
            (cancelPos # {} /\ \A n \in {"reader.sawCtx", "parser.sawCtx"} : firstOf(n) = 0 \/ \E c \in cancelPos : c < firstOf(n))
         THEN {} ELSE {D("a goroutine saw the context done before it was cancelled")}) \cup
        (IF nGot <= nOff /\ nDone <= nGot + 1 /\ nGot <= nDone + 1 THEN {} ELSE {D("events taken by the parser do not match events handed off by the reader")})
    : a \in 0..(NAttempts(S) - 1)}


(***************************************************************************)
(* DRIFT.parser: action-level trace validation of the parser model.  For a  *)
(* hook-traced attempt the caller goroutine's hook points between           *)
(* stream.spawned and stream.parsed are replayed against Streamer!Step, one *)
(* packet of the served stream per parser.gotEvent, with the handler and    *)
(* mapper answers taken from the recorded calls: the hook sequence, the      *)
(* deliveries (labels) and the position requested by the next attempt must  *)
(* be exactly what the model's state says.  DRIFT.session compares the      *)
(* abstract state predicted by TLC in a generated session (Gen_Session)     *)
(* with the observed one after each attempt.  Like DRIFT.conn these decide   *)
(* no property; they bind the operational model to the implementation.      *)
(***************************************************************************)
InjectedEv(plan) == [k |-> plan.inject.kind, cat |-> "none", fake |-> TRUE, ts |-> "0", end |-> "0"]
WithInject(pk, plan) ==
  IF plan.inject.kind = "none" THEN pk
  ELSE LET i == Min2(plan.inject.at, Len(pk)) IN Sub(pk, 1, i) \o <<InjectedEv(plan)>> \o Sub(pk, i + 1, Len(pk))

\* What the harness's master serves: Served, plus the PREVIOUS_GTIDS event that follows the FORMAT_DESCRIPTION of every file
\* served from its beginning when the log has GTIDs on (the event belongs to the file header, not to a unit).
PrevEv == [k |-> "prevgtids", cat |-> "none", fake |-> TRUE, ts |-> "0", end |-> "0"]
HasPrevAtStart(S, rot) == \E i \in 1..Len(Files(S)) : Files(S)[i].name = rot.rotfile /\ Files(S)[i].prev /\ rot.rotpos = Files(S)[i].first
RECURSIVE WithPrev(_, _, _)
WithPrev(S, pk, lastRot) ==
  IF pk = <<>> THEN <<>>
  ELSE LET e == Head(pk) IN
       IF e.k = "rotate" /\ e.fake THEN <<e>> \o WithPrev(S, Tail(pk), e)
       ELSE IF e.k = "fde" /\ lastRot.k = "rotate" /\ HasPrevAtStart(S, lastRot) THEN <<e, PrevEv>> \o WithPrev(S, Tail(pk), lastRot)
       ELSE <<e>> \o WithPrev(S, Tail(pk), lastRot)
ServedByMaster(S, pos) == WithPrev(S, Served(Files(S), pos), [k |-> "none"])

\* one parser iteration on event ev with the pending recorded answers hs (handler) and ms (mapper)
StepInfo(st, ev, hs, ms, acc) ==
  CHOOSE r \in
    { LET del == Len(s2.delivered) > Len(st.delivered)
          con == ev.k = "tablemap" /\ st.format /\ Consults(st, ev)
      IN [s2 |-> s2,
          hs |-> IF del /\ hs # <<>> THEN Tail(hs) ELSE hs,
          ms |-> IF con /\ ms # <<>> THEN Tail(ms) ELSE ms,
          acc |-> acc \o <<"parser.select", "parser.gotEvent">> \o
                  (IF del THEN <<"parser.handlerCall", IF s2.status = "error" THEN "parser.handlerErr" ELSE "parser.handlerOk">> ELSE <<>>)]
      : s2 \in {Step(st, ev, IF hs = <<>> THEN "ok" ELSE Head(hs), IF ms = <<>> THEN "ok" ELSE Head(ms))} } : TRUE

RECURSIVE ParserFold(_, _, _, _, _, _, _)
ParserFold(st, pk, i, n, hs, ms, acc) ==
  IF i > n \/ i > Len(pk) \/ st.status # "run" THEN [st |-> st, hooks |-> acc, used |-> i - 1]
  ELSE CHOOSE r \in {ParserFold(x.s2, pk, i + 1, n, x.hs, x.ms, x.acc) : x \in {StepInfo(st, pk[i], hs, ms, acc)}} : TRUE

CallerHookNames(S, a) ==
  LET hooks == SelectSeq(SubSeq(Trace, S.from, S.to), LAMBDA x : x.ev = "hook" /\ x.att = a /\ x.p \notin ReaderHooks)
  IN [i \in 1..Len(hooks) |-> hooks[i].p]

FirstIndex(q, v) == IF \E i \in 1..Len(q) : q[i] = v THEN CHOOSE i \in 1..Len(q) : q[i] = v /\ \A j \in 1..(i - 1) : q[j] # v ELSE 0

\* attempts DRIFT.parser applies to: hook-traced, the parser ran, exactly one dump request at a valid position
ParserApplicable(S, a) ==
  LET sh == CallerHookNames(S, a)  dump == DumpOf(S, a) IN
  /\ Plan(S, a).hookTrace /\ FirstIndex(sh, "stream.spawned") # 0 /\ FirstIndex(sh, "stream.parsed") # 0
  /\ Len(dump) = 1 /\ Files(S) # <<>> /\ IsBoundary(Files(S), [file |-> dump[1].file, off |-> dump[1].off])
ParserChecked(S) == Cardinality({a \in 0..(NAttempts(S) - 1) : ParserApplicable(S, a)})

MonDriftParser(S) ==
  UNION {
    LET sh    == CallerHookNames(S, a)
        i0    == FirstIndex(sh, "stream.spawned")
        i1    == FirstIndex(sh, "stream.parsed")
        seg   == Sub(sh, i0 + 1, i1 - 1)
        nGot  == Len(SelectSeq(seg, LAMBDA h : h = "parser.gotEvent"))
        dump  == DumpOf(S, a)
        D(w, g, k) == F("DRIFT.parser", S, [what |-> w, got |-> g, want |-> a, k |-> k, c |-> 0, typ |-> 0])
    IN IF ~Plan(S, a).hookTrace \/ i0 = 0 \/ i1 = 0 \/ Len(dump) # 1 \/ Files(S) = <<>> THEN {}
       ELSE LET pos == [file |-> dump[1].file, off |-> dump[1].off] IN
            IF ~IsBoundary(Files(S), pos) THEN {}
            ELSE UNION {
              LET st   == r.st
                  tail == IF st.status = "run" THEN Sub(seg, Len(r.hooks) + 1, Len(seg)) ELSE <<>>
                  ds   == Delivered(S, a)
                  nxt  == DumpOf(S, a + 1)
              IN (IF Len(r.hooks) <= Len(seg) /\ Sub(seg, 1, Len(r.hooks)) = r.hooks /\
                     (IF st.status = "run"
                      THEN Len(tail) = 2 /\ tail[1] = "parser.select" /\ tail[2] \in {"parser.sawClosed", "parser.sawCtx"}
                      ELSE Len(seg) = Len(r.hooks))
                  THEN {} ELSE {D("the parser's hook sequence is not the one Streamer!Step predicts for the served packets", Len(seg), Len(r.hooks))}) \cup
                 (IF Len(ds) = Len(st.delivered) /\ \A k \in 1..Len(ds) : ds[k].now = st.delivered[k].now /\ ds[k].next = st.delivered[k].next
                  THEN {} ELSE {D("deliveries differ from the model's delivered sequence", Len(ds), Len(st.delivered))}) \cup
                 (IF a + 1 < NAttempts(S) /\ Len(nxt) = 1 /\ ~(\E x \in {Lines(S, "setpos")[j] : j \in 1..Len(Lines(S, "setpos"))} : x.att = a + 1)
                     /\ [file |-> nxt[1].file, off |-> nxt[1].off] # st.pos
                  THEN {D("the next attempt did not request the model's position", a + 1, 0)} ELSE {})
              : r \in {ParserFold(StInit(pos), WithInject(ServedByMaster(S, pos), Plan(S, a)), 1, nGot,
                                  [j \in 1..Len(LinesAtt(S, "handlerReturn", a)) |-> IF LinesAtt(S, "handlerReturn", a)[j].res.nil THEN "ok" ELSE "err"],
                                  [j \in 1..Len(LinesAtt(S, "mapperCall", a)) |-> LinesAtt(S, "mapperCall", a)[j].res], <<>>)} }
    : a \in 0..(NAttempts(S) - 1)}

\* generated sessions: the abstract state TLC predicted after each attempt (transactions accepted so far) is the observed one,
\* for every attempt up to which the real run consumed exactly the packets the model consumed
RECURSIVE Aligned(_, _)
Aligned(S, a) ==
  IF a < 0 THEN TRUE
  ELSE LET m == Scen(S).model.attempts[a + 1]
           nGot == Len(SelectSeq(CallerHookNames(S, a), LAMBDA h : h = "parser.gotEvent"))
       IN nGot = m.n /\ Aligned(S, a - 1)
RECURSIVE AcceptedUpTo(_, _)
AcceptedUpTo(S, a) ==
  IF a < 0 THEN 0 ELSE Len(SelectSeq(LinesAtt(S, "handlerReturn", a), LAMBDA x : x.res.nil)) + AcceptedUpTo(S, a - 1)

MonDriftSession(S) ==
  IF Scen(S).fam \notin {"c04g", "c07g", "c17g"} THEN {}
  ELSE UNION {
    IF Aligned(S, a) /\ AcceptedUpTo(S, a) # Scen(S).model.attempts[a + 1].acc
    THEN {F("DRIFT.session", S, [what |-> "transactions accepted so far differ from the session model's state after the attempt",
                                  got |-> AcceptedUpTo(S, a), want |-> Scen(S).model.attempts[a + 1].acc, k |-> a, c |-> 0, typ |-> 0])}
    ELSE {}
    : a \in 0..(NAttempts(S) - 1)}

(***************************************************************************)
(* DRIFT.schedule: a schedule generated by TLC from MC_Conn (Gen_Conn) that *)
(* the real code followed to its end must end as the model says: what       *)
(* Stream returned (nil / error) and what the first Error() call returned.  *)
(***************************************************************************)
MonDriftSchedule(S) ==
  IF Scen(S).fam # "c05g" THEN {}
  ELSE LET sl  == LinesAtt(S, "script", 0)
           ret == StreamRet(S, 0)
           ers == LinesAtt(S, "errorReturn", 0)
           m   == Scen(S).model
           D(w) == F("DRIFT.schedule", S, [what |-> w, got |-> 0, want |-> 0, k |-> 0, c |-> 0, typ |-> 0])
       IN IF Len(sl) # 1 \/ ~sl[1].followed \/ ~m.complete THEN {}
          ELSE (IF m.result = "none" \/ (Len(ret) = 1 /\ ret[1].returned /\ ret[1].res.nil = (m.result = "nil")) THEN {}
                ELSE {D("Stream's result differs from the result of the model behaviour the run followed")}) \cup
               (IF m.eres = "none" \/ (Len(ers) >= 1 /\ ers[1].returned /\ ers[1].res.nil = (m.eres = "nil")) THEN {}
                ELSE {D("Error()'s result differs from the result of the model behaviour the run followed")})

(***************************************************************************)
(* C20 end to end: in the JSON of a delivered transaction an absent column  *)
(* is flagged absent, SQL NULL is JSON null and every other value is a JSON *)
(* string (so NULL and the empty string stay distinct), cell by cell.       *)
(***************************************************************************)
JState(st) == CASE st = "absent" -> "absent" [] st = "null" -> "null" [] OTHER -> "str"
ImageStates(rows, side) == [r \in 1..Len(rows) |-> [c \in 1..Len(IF side = "a" THEN rows[r].a ELSE rows[r].b) |->
                              JState((IF side = "a" THEN rows[r].a ELSE rows[r].b)[c].st)]]
MonC20(S) ==
  LET ds == Delivered(S, 0)
      xs == ExpectedFrom(S, StartPos(S))
  IN
  \* every delivered event has one of the library's statement kinds; a JSON rendering that says "unknown" has lost it
  UNION {{Z("C20.structure", S, "the kind of a delivered event cannot be recovered from its JSON (type unknown)", k, j)
            : j \in {i \in 1..Len(ds[k].jstates) : ~ds[k].jstates[i].err /\ ds[k].jstates[i].tname = "unknown"}}
         : k \in 1..Len(ds)}
  \cup
  UNION {
       IF Len(ds[k].jstates) # Len(xs[k].changes) THEN {Z("C20.structure", S, "JSON does not have one event per change", k, 0)}
       ELSE UNION {
         LET e == xs[k].changes[j]  js == ds[k].jstates[j] IN
         IF js.err THEN {Z("C20.marshal", S, "serialising a delivered transaction failed", k, j)}
         ELSE IF e.k = "query" THEN {}
         ELSE (IF e.k \in {"write", "update"} /\ js.vals # ImageStates(e.rows, "a")
               THEN {Z("C20.null-vs-empty", S, "after image: absent / NULL / value (string) rendering differs from the binlog row", k, j)} ELSE {}) \cup
              (IF e.k \in {"update", "delete"} /\ js.ids # ImageStates(e.rows, "b")
               THEN {Z("C20.null-vs-empty", S, "before image: absent / NULL / value (string) rendering differs from the binlog row", k, j)} ELSE {})
         : j \in 1..Len(xs[k].changes)}
       : k \in 1..Min2(Len(ds), Len(xs))}

(***************************************************************************)
(* C16 (stream half): two streams on one Streamer whose masters announce   *)
(* different formats (checksum on / off, other wire options).  The second  *)
(* call is served from a second history (files2, from start2): each call   *)
(* decodes with the format ITS stream announces.                           *)
(***************************************************************************)
MonC16(S) ==
  SeqFails("C16.first-stream", S, Delivered(S, 0),
           LET xs == ExpectedFrom(S, StartPos(S)) IN
           IF Scen(S).attempts[1].end = "cancel" /\ Len(Delivered(S, 0)) <= Len(xs) THEN Sub(xs, 1, Len(Delivered(S, 0))) ELSE xs, TRUE) \cup
  SeqFails("C16.second-stream", S, Delivered(S, 1), Committed(UnitsFrom(Scen(S).files2, Scen(S).start2), Scen(S).start2), TRUE) \cup
  {F("C16.second-stream", S, [what |-> "the second stream did not end cleanly", got |-> 0, want |-> 0, k |-> 0, c |-> 0, typ |-> 0]) :
     x \in {y \in {Lines(S, "streamReturn")[i] : i \in 1..Len(Lines(S, "streamReturn"))} : y.att = 1 /\ (~y.returned \/ ~y.res.nil)}}

(***************************************************************************)
(* Dispatch and the replay state machine.                                  *)
(***************************************************************************)
\* end-to-end halves of the value properties: the delivered cells of the property's column kinds match the oracle
MonE2E(p, S) == SeqFails(p \o ".end-to-end", S, Delivered(S, 0), ExpectedFrom(S, StartPos(S)), TRUE)

Mon(p, S) ==
  CASE p = "C01" -> MonC01(S)
    [] p \in {"C09", "C10", "C11", "C12", "C13", "C14"} -> MonE2E(p, S)
    [] p = "C02" -> MonC02(S)
    [] p = "C03" -> MonC03(S)
    [] p = "C04" -> MonC04(S)
    \* model-conformance monitors (they decide no property; evaluated in a pass of their own so that nothing they do can
    \* void a verdict): D04 / D05 / D06
    [] p = "D04" -> MonDriftParser(S) \cup MonDriftSession(S)
    [] p = "D05" -> MonDrift(S) \cup MonDriftParser(S) \cup MonDriftSchedule(S)
    [] p = "D06" -> MonDriftSchedule(S)
    [] p = "C07" -> MonC07(S)
    [] p = "C17" -> MonC17(S)
    [] p = "C15" -> MonC15(S)
    [] p = "C05" -> MonC05(S)
    [] p = "C06" -> MonC06(S)
    [] p = "C08" -> MonC08(S)
    [] p = "C20" -> MonC20(S)
    [] p = "C16" -> MonC16(S)

Failures(S) == UNION {Mon(p, S) : p \in Props}

TInit == l = 1 /\ s0 = 0 /\ nviol = 0 /\ nscen = 0

TNext ==
  /\ l <= Len(Trace)
  /\ l' = l + 1
  /\ LET e == Trace[l] IN
       /\ s0' = IF e.ev = "scenario" THEN l ELSE s0
       /\ nscen' = IF e.ev = "scenario" THEN nscen + 1 ELSE nscen
       /\ IF e.ev = "end"
          THEN LET bad == Failures([from |-> s0, to |-> l]) IN
                 /\ nviol' = nviol + Cardinality(bad)
                 /\ \A b \in bad : PrintT(<<"MONFAIL", ToJson(b)>>)
                 /\ (Props \cap {"D04", "D05"} # {} /\ ParserChecked([from |-> s0, to |-> l]) > 0)
                      => PrintT(<<"MONSTAT", "parser", ParserChecked([from |-> s0, to |-> l])>>)
          ELSE IF e.ev = "race" /\ "C05" \in Props
          THEN /\ nviol' = nviol + 1
               /\ PrintT(<<"MONFAIL", ToJson([mon |-> "C05.race", id |-> 0, fam |-> "race",
                                              info |-> [what |-> "data race", pair |-> e.pair, a |-> e.a, b |-> e.b]])>>)
          ELSE UNCHANGED nviol

TSpec == TInit /\ [][TNext]_tvars

\* the whole file was consumed (checked as a POSTCONDITION): one state per line plus the initial one
AllConsumed == TLCGet("stats").diameter - 1 = Len(Trace)

Summary == l = Len(Trace) + 1 => PrintT(<<"SUMMARY", nscen, nviol>>)
=============================================================================
