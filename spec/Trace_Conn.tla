----------------------------- MODULE Trace_Conn -----------------------------
(***************************************************************************)
(* Trace validation of the concurrency model: the hook-level trace of the  *)
(* real Stream()/Error() (build tag verif: one line per hook point, in the *)
(* order the recorder's lock serialised them, plus the harness's own lines *)
(* for the environment: attempt start, cancel, Stream's return, Error()'s  *)
(* return) must be a behaviour of MC_Conn.  Every line is matched by       *)
(* MC_Conn's OWN actions:                                                  *)
(*                                                                         *)
(*   line                      action(s) of MC_Conn                        *)
(*   attempt                   Call                                        *)
(*   stream.spawned | first    ConnectOk . SendSetOk . SendDumpOk . Spawn  *)
(*     reader.read             (whichever line comes first; the other one  *)
(*                             is a stuttering step)                       *)
(*   reader.handoff            ReaderRead (a non-terminal packet: TLC      *)
(*                             infers which of ev / commit / bad from what *)
(*                             the parser does next)                       *)
(*   reader.handedOff |        ParserTakesEvent (the rendezvous: whichever *)
(*     parser.gotEvent         side logs first)                            *)
(*   parser.handlerOk / Err    HandlerOk / HandlerErr                      *)
(*   parser.sawClosed / sawCtx ParserSeesClosed / ParserSeesCtx            *)
(*   reader.readError          [Break .] ReaderRead (terminal) .           *)
(*                             ReaderPublish  (EOF / ERR / broken as the   *)
(*                             master's plan says (attempt line, field m), *)
(*                             or closed by Stream)                        *)
(*   reader.sawCtx             ReaderSeesCtx . ReaderPublish               *)
(*   reader.published          ReaderCloseErr                              *)
(*   reader.sawDone            ReaderSeesDone . ReaderPublish .            *)
(*                             ReaderCloseErr                              *)
(*   reader.closeEvents        ReaderCloseEv                               *)
(*   close.begin               CloseDone, or (no reader yet) SendSetFail   *)
(*   (no line)                 CloseSocket: dc.Close() happens somewhere   *)
(*                             between close.begin and close.end - a       *)
(*                             silent step TLC places (a read that         *)
(*                             completed just before it may be logged      *)
(*                             after close.begin)                          *)
(*   cancel                    Cancel; [ConnectOk .] Cancel when the       *)
(*                             connection was made but its first hook      *)
(*                             point has not been logged yet               *)
(*   ret   (Stream returned)   Return, or ConnectFail if nothing happened  *)
(*                             since Call; result[att] must be the logged  *)
(*                             result                                      *)
(*   error (Error() returned)  ErrorCall [. ErrorRecv], now or silently    *)
(*                             earlier (Error() has no hook point and its  *)
(*                             line is written after it returned); eres    *)
(*                             must be the logged result of the first call *)
(*   other hook points         stuttering steps guarded by the pc values   *)
(*                                                                         *)
(* Hook points sit BEFORE operations that enable another goroutine (send,  *)
(* close, cancel) and AFTER operations that wait for one (receive, saw     *)
(* closed/done), so the recorded order respects the causal order of the    *)
(* channel operations; a release mapped to its earlier hook point only     *)
(* makes the model's step earlier than the real one, never later than its  *)
(* observers.  "A . B" is action composition (TLC: -Dtlc2.tool.impl.Tool.  *)
(* cdot=true).  Scenarios are concatenated; a `scenario` line resets the   *)
(* state.  Acceptance: the highest line index reached (TLCSet register 1,  *)
(* one worker) is the end of the file.  A rejected scenario decides no     *)
(* property (MODEL-DRIFT): it says MC_Conn no longer describes the code.   *)
(***************************************************************************)
EXTENDS MC_Conn, Json

CONSTANT TraceFile

Trace == ndJsonDeserialize(TraceFile)

VARIABLES l, early, mend,    \* mend: how the master ends the current connection according to the attempt's plan
          epend              \* Error() calls the model has already completed whose line has not been reached yet
tvars == <<vars, l, early, mend, epend>>

Line == Trace[l]
Has == l <= Len(Trace)
IsHook(p) == Has /\ Line.e = "hook" /\ Line.p = p
A == Line.a + 1                       \* the trace counts attempts from 0
Adv == l' = l + 1
K(X) == X /\ UNCHANGED <<l, early, mend, epend>>   \* a composed step that consumes no line
Last(X) == X /\ Adv /\ UNCHANGED <<early, mend, epend>>
Stutter == UNCHANGED vars /\ Adv /\ UNCHANGED <<early, mend, epend>>

TInit == Init /\ l = 1 /\ early = 0 /\ mend = "none" /\ epend = 0

\* a new Streamer object
TScenario ==
  /\ Has /\ Line.e = "scenario"
  /\ att' = 0 /\ spc' = "idle" /\ net' = 0 /\ sock' = [a \in Att |-> "none"]
  /\ ctxDone' = [a \in Att |-> FALSE]
  /\ rpc' = [a \in Att |-> "none"] /\ held' = [a \in Att |-> "none"]
  /\ errBuf' = [a \in Att |-> <<>>] /\ errClosed' = [a \in Att |-> FALSE]
  /\ evClosed' = [a \in Att |-> FALSE] /\ doneClosed' = [a \in Att |-> FALSE]
  /\ sErrChan' = 0
  /\ result' = [a \in Att |-> "none"] /\ cause' = [a \in Att |-> "none"] /\ terminal' = [a \in Att |-> "none"]
  /\ pending' = [a \in Att |-> "none"]
  /\ cancelledAtReturn' = [a \in Att |-> FALSE]
  /\ hpc' = "idle" /\ epc' = "idle" /\ ecalls' = 0 /\ eres' = "none" /\ retRes' = "none" /\ retWhy' = "none"
  /\ Adv /\ early' = 0 /\ mend' = "none" /\ epend' = 0

TEnd == Has /\ Line.e = "end" /\ Stutter

TCall == Has /\ Line.e = "attempt" /\ epend = 0 /\ Call /\ att' = A /\ Adv /\ early' = 0 /\ mend' = Line.m /\ UNCHANGED epend

ConnectNow == ConnectOkN(MaxPkts)
\* the stages between Call and Spawn have no hook point of their own: they are taken when the first line after them
\* shows up (spc = "set": the connection was already inferred at a cancel line)
Connected == IF spc = "connect" THEN K(ConnectNow) \cdot K(SendSetOk) \cdot K(SendDumpOk) ELSE K(SendSetOk) \cdot K(SendDumpOk)

TSpawn ==
  /\ \/ IsHook("stream.spawned") \/ IsHook("reader.read")
  /\ spc \in {"connect", "set"}
  /\ Connected \cdot Last(Spawn)

TConnFail ==
  /\ IsHook("close.begin") /\ spc \in {"connect", "set"}
  /\ IF spc = "connect" THEN K(ConnectNow) \cdot Last(SendSetFail) ELSE Last(SendSetFail)

TCallerStutter ==
  \/ IsHook("stream.call") /\ spc = "connect" /\ Stutter
  \/ IsHook("stream.spawned") /\ spc \notin {"connect", "set"} /\ rpc[att] # "none" /\ Stutter
  \/ IsHook("parser.select") /\ spc = "select" /\ Stutter
  \/ IsHook("parser.handlerCall") /\ spc = "handler" /\ hpc = "running" /\ Stutter
  \/ IsHook("stream.parsed") /\ spc = "closing" /\ Stutter
  \/ IsHook("close.end") /\ spc \in {"return", "idle"} /\ doneClosed[att] /\ Stutter

TTake ==
  \/ /\ IsHook("parser.gotEvent")
     /\ IF early > 0 THEN UNCHANGED <<vars, mend, epend>> /\ Adv /\ early' = early - 1
        ELSE Last(ParserTakesEvent)
  \/ /\ IsHook("reader.handedOff")
     /\ IF A = att /\ held[A] # "none" THEN ParserTakesEvent /\ Adv /\ early' = early + 1 /\ UNCHANGED <<mend, epend>>
        ELSE Stutter

TCaller ==
  \/ IsHook("parser.handlerOk") /\ Last(HandlerOk)
  \/ IsHook("parser.handlerErr") /\ Last(HandlerErr)
  \/ IsHook("parser.sawClosed") /\ Last(ParserSeesClosed)
  \/ IsHook("parser.sawCtx") /\ Last(ParserSeesCtx)
  \/ IsHook("close.begin") /\ spc \notin {"connect", "set"} /\ Last(CloseDone)

TReader ==
  \/ IsHook("reader.read") /\ spc \notin {"connect", "set"} /\ rpc[A] = "read" /\ Stutter
  \/ IsHook("reader.handoff") /\ Last(ReaderRead(A)) /\ rpc'[A] = "handoff"
  \* the read failed: the terminal packet / fault is the one the master's plan says, or the connection was closed by Stream
  \/ IsHook("reader.readError") /\
       \/ K(ReaderRead(A) /\ rpc'[A] = "pub" /\ terminal'[A] \in {"close", mend}) \cdot Last(ReaderPublish(A))
       \/ sock[A] = "open" /\ A = att /\ mend = "transport" /\
            (K(Break) \cdot K(ReaderRead(A) /\ rpc'[A] = "pub") \cdot Last(ReaderPublish(A)))
  \/ IsHook("reader.sawCtx") /\ (K(ReaderSeesCtx(A)) \cdot Last(ReaderPublish(A)))
  \/ IsHook("reader.published") /\ Last(ReaderCloseErr(A))
  \/ IsHook("reader.sawDone") /\ (K(ReaderSeesDone(A)) \cdot K(ReaderPublish(A)) \cdot Last(ReaderCloseErr(A)))
  \/ IsHook("reader.closeEvents") /\ Last(ReaderCloseEv(A))
  \/ IsHook("reader.exit") /\ rpc[A] = "exit" /\ Stutter

\* dc.Close(): no line of its own; it happens between close.begin and close.end
TCloseSocket == spc = "closeSock" /\ CloseSocket /\ UNCHANGED <<l, early, mend, epend>>

TCancel ==
  /\ Has /\ Line.e = "cancel" /\ att > 0
  /\ IF ctxDone[att] THEN Stutter
     ELSE \/ Last(Cancel)
          \/ spc = "connect" /\ (K(ConnectNow) \cdot Last(Cancel))

TRet ==
  /\ Has /\ Line.e = "ret"
  /\ IF spc = "connect" THEN Last(ConnectFail) /\ Line.res = "err"
     ELSE IF spc = "return" THEN Last(Return /\ result'[att] = Line.res)
     ELSE spc = "idle" /\ result[att] = Line.res /\ Stutter

\* Error() has no hook point: its line is written when the call has returned, which can be later than the moment it
\* received from the channel and looked at the context (a cancel may be logged in between).  The model may therefore
\* complete a call silently (TErrorEarly) before the line that reports it; the line then only checks the result.
ECheck == Line.call = 1 => eres' = Line.res       \* the logged result of the first Error() call is the model's
TErrorEarly ==
  /\ spc = "idle" /\ att > 0 /\ epc = "idle" /\ ecalls < MaxErrorCalls /\ result[att] # "none"
  /\ IF sErrChan = 0 THEN ErrorCall /\ UNCHANGED <<l, early, mend>> /\ epend' = epend + 1
     ELSE K(ErrorCall) \cdot (ErrorRecv /\ UNCHANGED <<l, early, mend>> /\ epend' = epend + 1)
TError ==
  /\ Has /\ Line.e = "error"
  /\ IF epend > 0
     THEN (Line.call = 1 => eres = Line.res) /\ UNCHANGED <<vars, early, mend>> /\ Adv /\ epend' = epend - 1
     ELSE IF sErrChan = 0 THEN Last(ErrorCall /\ ECheck) ELSE K(ErrorCall) \cdot Last(ErrorRecv /\ ECheck)

TNext ==
  \/ TScenario \/ TEnd \/ TCall \/ TSpawn \/ TConnFail \/ TCallerStutter \/ TTake \/ TCaller \/ TReader
  \/ TCancel \/ TRet \/ TError \/ TErrorEarly \/ TCloseSocket

TSpec == TInit /\ [][TNext]_tvars

\* high-water mark of the line index (register 1; one worker)
HighWater == TLCSet(1, IF TLCGet(1) > l THEN TLCGet(1) ELSE l)
ASSUME TLCSet(1, 0)
Accepted ==
  /\ PrintT(<<"CONNTRACE", TLCGet(1) - 1, Len(Trace)>>)
  /\ TRUE

\* the safety properties of the model hold in every state of the matched behaviours
TraceSafe == HandlerDiscipline /\ ConnectionClosed
=============================================================================
