---------------------------- MODULE EventFormat ----------------------------
(***************************************************************************)
(* Binlog event layouts (DESIGN.md Appendix A.2-A.4) as ENCODERS: the bytes *)
(* a master writes for an abstract event.  Used to cross-check the harness's*)
(* independent Go writer: every event handed to the real decoders carries   *)
(* its bytes, and the trace monitors require bytes = Encode(abstract)       *)
(* (monitor HARNESS.writer), so the oracle chain is                         *)
(*      abstract value --spec encoder--> bytes --real decoder--> observed   *)
(*      observed = abstract (judged by the spec)                            *)
(* with no Go code in the trusted path for the byte layout.                 *)
(* Checksums: a CRC32 is four arbitrary bytes here (the library does not    *)
(* verify it); the comparison ignores their value.                          *)
(***************************************************************************)
EXTENDS Bytes

\* n-byte little-endian encoding of a natural given as LS decimal digits (for numbers beyond 2^31)
RECURSIVE LEOfDigits(_, _)
LEOfDigits(ds, n) ==
  IF n = 0 THEN <<>>
  ELSE LET dm == DivMod(ds, 256) IN <<dm.r>> \o LEOfDigits(dm.q, n - 1)

\* LS digits of a decimal text (ASCII codes, most significant first)
DigitsOfText(t) == Norm(Rev([i \in 1..Len(t) |-> t[i] - 48]))
LEText(t, n) == LEOfDigits(DigitsOfText(t), n)          \* little-endian bytes of a decimal text

LESmall(v, n) == [i \in 1..n |-> (v \div Pow(256, i - 1)) % 256]     \* v < 2^31, n <= 4 (upper bytes 0 beyond)
LESmallN(v, n) == [i \in 1..n |-> IF i <= 3 THEN (v \div Pow(256, i - 1)) % 256 ELSE IF i = 4 THEN v \div 16777216 ELSE 0]

\* MySQL length-encoded integer (values < 2^24 here)
LenEnc(n) ==
  IF n < 251 THEN <<n>>
  ELSE IF n < 65536 THEN <<252>> \o LESmallN(n, 2)
  ELSE <<253>> \o LESmallN(n, 3)

\* bitmap: bit i of byte i \div 8, least significant bit first
RECURSIVE BitsLSVal(_)
BitsLSVal(bs) == IF bs = <<>> THEN 0 ELSE Head(bs) + 2 * BitsLSVal(Tail(bs))
BitmapBytes(bits) == [b \in 1..((Len(bits) + 7) \div 8) |-> BitsLSVal(Sub(bits, (b - 1) * 8 + 1, Min2(b * 8, Len(bits))))]

(***************************************************************************)
(* Header: timestamp (4) type (1) server id (4) event length (4) next       *)
(* position (4) flags (2); ts / sid / np are decimal texts.                 *)
(***************************************************************************)
Header(ts, typ, sid, len, np, flags) ==
  LEText(ts, 4) \o <<typ>> \o LEText(sid, 4) \o LESmallN(len, 4) \o LEText(np, 4) \o LESmallN(flags, 2)

\* the whole event without its checksum bytes; `crc` tells whether 4 checksum bytes follow (they count in the length)
Event(ts, typ, sid, np, flags, body, crc) ==
  Header(ts, typ, sid, 19 + Len(body) + (IF crc THEN 4 ELSE 0), np, flags) \o body

\* does the byte string `bytes` hold exactly this event (checksum bytes, if any, arbitrary)?
IsEvent(bytes, ts, typ, sid, np, flags, body, crc) ==
  LET e == Event(ts, typ, sid, np, flags, body, crc) IN
  IF crc THEN Len(bytes) = Len(e) + 4 /\ Sub(bytes, 1, Len(e)) = e ELSE bytes = e

(***************************************************************************)
(* Bodies.                                                                 *)
(***************************************************************************)
RotateBody(posText, file) == LEText(posText, 8) \o file
XidBody(xid8) == xid8
IntVarBody(kind, valueText) == <<kind>> \o LEText(valueText, 8)
RandBody(s1Text, s2Text) == LEText(s1Text, 8) \o LEText(s2Text, 8)

\* QUERY: thread id (4) exec time (4) db length (1) error code (2) status-vars length (2) status vars, db, 0, SQL
QueryBody(thread4, exec4, err2, vars, db, sql) ==
  thread4 \o exec4 \o <<Len(db)>> \o err2 \o LESmallN(Len(vars), 2) \o vars \o db \o <<0>> \o sql

\* FORMAT_DESCRIPTION: version 4 (2), server version (50, NUL padded), create timestamp (4), header length 19,
\* post-header lengths, checksum algorithm; 4 checksum bytes always follow
FdeBody(srvver, create4, sizes, alg) ==
  <<4, 0>> \o srvver \o [i \in 1..(50 - Len(srvver)) |-> 0] \o create4 \o <<19>> \o sizes \o <<alg>>

\* TABLE_MAP: table id (4|6) flags (2) db length, db, 0, table length, table, 0, column count (lenenc), types,
\* metadata length (lenenc), metadata, nullability bitmap, [optional metadata]
TableMapBody(tidw, tidText, db, name, cols, tail) ==
  LET meta == Concat([c \in 1..Len(cols) |-> cols[c].metab]) IN
  LEText(tidText, tidw) \o <<1, 0>> \o <<Len(db)>> \o db \o <<0>> \o <<Len(name)>> \o name \o <<0>> \o
  LenEnc(Len(cols)) \o [c \in 1..Len(cols) |-> cols[c].typ] \o LenEnc(Len(meta)) \o meta \o
  BitmapBytes([c \in 1..Len(cols) |-> IF cols[c].nullable THEN 1 ELSE 0]) \o tail

\* one row image: NULL bitmap over the present columns, then the non-NULL cells
ImageBytes(cells) ==
  LET present == SelectSeq(cells, LAMBDA c : c.st # "absent")
      vals == SelectSeq(cells, LAMBDA c : c.st = "val")
  IN BitmapBytes([i \in 1..Len(present) |-> IF present[i].st = "null" THEN 1 ELSE 0]) \o
     Concat([i \in 1..Len(vals) |-> vals[i].bytes])

\* rows event body: table id, flags, [v2: extra-data length (2, counting itself) + extra data], column count,
\* present bitmaps (before for update/delete, after for write/update), rows
\* the columns-present bitmaps may have the unused high bits of their last byte set (padones)
PadBits(bits, padones) == bits \o [i \in 1..((8 - (Len(bits) % 8)) % 8) |-> IF padones THEN 1 ELSE 0]
RowsBodyP(tidw, tidText, v2, extra, ncols, kind, pb, pa, rows, padones) ==
  LET hasB == kind # "write"
      hasA == kind # "delete"
  IN LEText(tidText, tidw) \o <<1, 0>> \o
     (IF v2 THEN LESmallN(2 + Len(extra), 2) \o extra ELSE <<>>) \o
     LenEnc(ncols) \o
     (IF hasB THEN BitmapBytes(PadBits(pb, padones)) ELSE <<>>) \o (IF hasA THEN BitmapBytes(PadBits(pa, padones)) ELSE <<>>) \o
     Concat([r \in 1..Len(rows) |-> (IF hasB THEN ImageBytes(rows[r].b) ELSE <<>>) \o (IF hasA THEN ImageBytes(rows[r].a) ELSE <<>>)])

RowsBody(tidw, tidText, v2, extra, ncols, kind, pb, pa, rows) ==
  LET hasB == kind # "write"
      hasA == kind # "delete"
  IN LEText(tidText, tidw) \o <<1, 0>> \o
     (IF v2 THEN LESmallN(2 + Len(extra), 2) \o extra ELSE <<>>) \o
     LenEnc(ncols) \o
     (IF hasB THEN BitmapBytes(pb) ELSE <<>>) \o (IF hasA THEN BitmapBytes(pa) ELSE <<>>) \o
     Concat([r \in 1..Len(rows) |-> (IF hasB THEN ImageBytes(rows[r].b) ELSE <<>>) \o (IF hasA THEN ImageBytes(rows[r].a) ELSE <<>>)])

\* GTID / ANONYMOUS_GTID: flags (1), SID (16), GNO (8) [5.7: logical-timestamp type, last committed, sequence number]
GtidBody(flags, sid16, gno8, tail) == <<flags>> \o sid16 \o gno8 \o tail

RowsType(kind, v2) ==
  CASE kind = "write" -> IF v2 THEN 30 ELSE 23
    [] kind = "update" -> IF v2 THEN 31 ELSE 24
    [] kind = "delete" -> IF v2 THEN 32 ELSE 25
=============================================================================
