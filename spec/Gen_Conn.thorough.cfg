SPECIFICATION GSpec
CONSTANTS
  MaxPkts = 4
  MaxAttempts = 1
  MaxErrorCalls = 2
  Defects = {"ctxAtErrorTime"}
  Depth = 80
INVARIANT Emit
CHECK_DEADLOCK FALSE
