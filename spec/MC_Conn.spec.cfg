\* the repaired design (cancellation sampled when Stream returns): every property, including late cancellation
SPECIFICATION Spec
CONSTANTS
  MaxPkts = 3
  MaxAttempts = 1
  MaxErrorCalls = 2
  Defects = {}
INVARIANTS HandlerDiscipline ConnectionClosed ReasonReported NeverSwallowed
PROPERTIES StreamTerminates NothingLeftBehind ErrorNeverBlocks
CHECK_DEADLOCK FALSE
