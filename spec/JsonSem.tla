------------------------------ MODULE JsonSem ------------------------------
(***************************************************************************)
(* Meaning of JSON documents for property C14.  A document is a tree       *)
(*   [k: "obj", kv: seq of [key, v]]  [k: "arr", xs: seq]                  *)
(*   [k: "lit", v: "null"|"true"|"false"]                                  *)
(*   [k: "int", w: width tag, dec: decimal text]   [k: "dbl", bits]        *)
(*   [k: "str", s]  and the opaque scalars                                 *)
(*   [k: "date", y, m, d]  [k: "time", neg, h, mi, s, us]                  *)
(*   [k: "datetime", ...]  [k: "dec", p, sc, raw]                          *)
(* The library prints a document as SQL-ish text (JSON_OBJECT(...),        *)
(* JSON_ARRAY(...), quoted scalars, CAST('...' AS T)); the harness parses  *)
(* that text into a tree with nodes obj / arr / lit / num / str / cast.    *)
(* Denotes(parsed, doc): the printed text denotes the stored document:     *)
(* same keys, values, order and nesting; numbers by value (integers by     *)
(* their decimal text, doubles by their IEEE bits), temporal and decimal   *)
(* scalars by MySQL's canonical text.                                      *)
(***************************************************************************)
EXTENDS CellCodec

S(str) == str   \* texts are ASCII-code sequences; type names below are written as code sequences
TDATE == <<68, 65, 84, 69>>                                    \* DATE
TTIME6 == <<84, 73, 77, 69, 40, 54, 41>>                       \* TIME(6)
TDATETIME6 == <<68, 65, 84, 69, 84, 73, 77, 69, 40, 54, 41>>   \* DATETIME(6)
DecTypeText(p, s) == <<68, 69, 67, 73, 77, 65, 76, 40>> \o SmallText(p) \o <<44>> \o SmallText(s) \o <<41>>   \* DECIMAL(p,s)

Micro(us) == <<Dot>> \o PadText(us, 6)
\* a fraction may be omitted when it is zero
TimeTexts(neg, h, mi, s, us) ==
  LET base == (IF neg THEN <<Dash>> ELSE <<>>) \o ClockText(h, mi, s)
  IN IF us = 0 THEN {base, base \o Micro(0)} ELSE {base \o Micro(us)}
DateTimeTexts(y, m, d, h, mi, s, us) ==
  LET base == DateText(y, m, d) \o <<Space>> \o ClockText(h, mi, s)
  IN IF us = 0 THEN {base, base \o Micro(0)} ELSE {base \o Micro(us)}

RECURSIVE Denotes(_, _)
Denotes(p, d) ==
  CASE d.k = "obj" ->
         /\ p.k = "obj" /\ Len(p.kv) = Len(d.kv)
         /\ \A i \in 1..Len(d.kv) : p.kv[i].key = d.kv[i].key /\ Denotes(p.kv[i].v, d.kv[i].v)
    [] d.k = "arr" ->
         /\ p.k = "arr" /\ Len(p.xs) = Len(d.xs)
         /\ \A i \in 1..Len(d.xs) : Denotes(p.xs[i], d.xs[i])
    [] d.k = "lit" -> p.k = "lit" /\ p.v = d.v
    [] d.k = "int" -> p.k = "num" /\ ~p.isdbl /\ p.text = d.dec
    [] d.k = "dbl" -> p.k = "num" /\ p.isdbl /\ p.fbits = d.bits
    [] d.k = "str" -> p.k = "str" /\ p.s = d.s
    [] d.k = "date" -> p.k = "cast" /\ p.t = TDATE /\ p.text = DateText(d.y, d.m, d.d)
    [] d.k = "time" -> p.k = "cast" /\ p.t = TTIME6 /\ p.text \in TimeTexts(d.neg, d.h, d.mi, d.s, d.us)
    [] d.k = "datetime" -> p.k = "cast" /\ p.t = TDATETIME6 /\ p.text \in DateTimeTexts(d.y, d.m, d.d, d.h, d.mi, d.s, d.us)
    [] d.k = "dec" -> p.k = "cast" /\ p.t = DecTypeText(d.p, d.sc) /\ p.text = DecimalText(d.raw, d.p, d.sc)

\* where the first difference is (for diagnostics): the kind of the stored node
RECURSIVE FirstDiff(_, _)
FirstDiff(p, d) ==
  IF Denotes(p, d) THEN "none"
  ELSE IF d.k = "obj" /\ p.k = "obj" /\ Len(p.kv) = Len(d.kv) /\ (\A i \in 1..Len(d.kv) : p.kv[i].key = d.kv[i].key)
       THEN FirstDiff(p.kv[CHOOSE i \in 1..Len(d.kv) : ~Denotes(p.kv[i].v, d.kv[i].v)].v, d.kv[CHOOSE i \in 1..Len(d.kv) : ~Denotes(p.kv[i].v, d.kv[i].v)].v)
  ELSE IF d.k = "arr" /\ p.k = "arr" /\ Len(p.xs) = Len(d.xs)
       THEN FirstDiff(p.xs[CHOOSE i \in 1..Len(d.xs) : ~Denotes(p.xs[i], d.xs[i])], d.xs[CHOOSE i \in 1..Len(d.xs) : ~Denotes(p.xs[i], d.xs[i])])
  ELSE d.k
=============================================================================
