SPECIFICATION GSpec
CONSTANTS
  Defects = {}
  MaxUnits = 2
  MaxStmts = 1
  WithInvalid = FALSE
  MaxAttempts = 2
  MaxFailed = 1
INVARIANTS Emit GenOK
CHECK_DEADLOCK FALSE
