----------------------------- MODULE JsonBinary -----------------------------
(***************************************************************************)
(* MySQL's binary JSON serialisation (json_binary.cc; DESIGN.md Appendix   *)
(* A.7) as an ENCODER: Jsonb(doc, force) is the type byte and the data     *)
(* bytes of a document tree (JsonSem's trees).  Used to cross-check the    *)
(* harness's independent Go serialiser: every JSON case carries the bytes  *)
(* it fed to the real decoder and the replay requires them to be this      *)
(* encoding (monitor HARNESS.writer).                                      *)
(*                                                                         *)
(* Containers: element count, total size, [key entries (offset, length)],  *)
(* value entries (type, inlined value or offset), [keys], values; offsets  *)
(* and sizes are 2 bytes (small) or 4 bytes (large) little endian and are  *)
(* relative to the first byte after the container's type byte.  Literals,  *)
(* int16 and uint16 are always inlined; int32 / uint32 only in large       *)
(* containers.  A container is small when its total size fits 2 bytes,     *)
(* unless `force` asks for the large format everywhere.                    *)
(***************************************************************************)
EXTENDS EventFormat

RECURSIVE VarLen(_)
\* variable-length size: 7 bits per byte, high bit = continue
VarLen(n) == IF n < 128 THEN <<n>> ELSE <<128 + (n % 128)>> \o VarLen(n \div 128)

\* k-bit big-endian bit list of a small natural
BitsOf(n, k) == [i \in 1..k |-> (n \div Pow(2, k - i)) % 2]
RECURSIVE BytesOfBits(_)
BytesOfBits(bits) == IF bits = <<>> THEN <<>> ELSE <<BitsVal(Sub(bits, 1, 8))>> \o BytesOfBits(Drop(bits, 8))

\* little-endian n bytes of a (possibly negative) decimal text
LETextSigned(dec, n) == IF dec[1] = 45 THEN NegLE(LEText(Tail(dec), n)) ELSE LEText(dec, n)

\* packed temporal values: 8 bytes little endian
PackedDT(y, m, d, h, mi, s, us) ==
  Rev(BytesOfBits(<<0>> \o BitsOf(y * 13 + m, 17) \o BitsOf(d, 5) \o BitsOf(h, 5) \o BitsOf(mi, 6) \o BitsOf(s, 6) \o BitsOf(us, 24)))
PackedTime(neg, h, mi, s, us) ==
  LET mag == Rev(BytesOfBits(BitsOf(0, 18) \o BitsOf(h, 10) \o BitsOf(mi, 6) \o BitsOf(s, 6) \o BitsOf(us, 24)))
  IN IF neg THEN NegLE(mag) ELSE mag

RECURSIVE SumLen(_, _, _)
\* total length of the data of the children up to index n that satisfy keep
SumLen(lens, keep, n) == IF n = 0 THEN 0 ELSE (IF keep[n] THEN lens[n] ELSE 0) + SumLen(lens, keep, n - 1)

PadTo(bs, n) == bs \o [i \in 1..(n - Len(bs)) |-> 0]

\* A container from the already encoded children (kids: sequence of [t, d]) and the keys.  `kids` is always a VALUE here
\* (bound by a set comprehension in Jsonb), so that every child is encoded exactly once: TLC re-evaluates LET
\* definitions on every reference, which would make a naive formulation exponential in the nesting depth.
ContainerOf(isObj, keys, kids, force) ==
  LET cnt   == Len(kids)
      klens == [i \in 1..cnt |-> Len(keys[i])]
      dlens == [i \in 1..cnt |-> Len(kids[i].d)]
      allK  == [i \in 1..cnt |-> TRUE]
      Build(large) ==
        LET osz  == IF large THEN 4 ELSE 2
            hdr  == 2 * osz + (IF isObj THEN cnt * (osz + 2) ELSE 0) + cnt * (1 + osz)
            inl  == [i \in 1..cnt |-> kids[i].t \in {4, 5, 6} \/ (large /\ kids[i].t \in {7, 8})]
            out  == [i \in 1..cnt |-> ~inl[i]]
            keyA == SumLen(klens, allK, cnt)
            tot  == hdr + keyA + SumLen(dlens, out, cnt)
        IN [tot |-> tot,
            bytes |-> LESmallN(cnt, osz) \o LESmallN(tot, osz) \o
                      (IF isObj THEN Concat([i \in 1..cnt |-> LESmallN(hdr + SumLen(klens, allK, i - 1), osz) \o LESmallN(klens[i], 2)]) ELSE <<>>) \o
                      Concat([i \in 1..cnt |-> <<kids[i].t>> \o
                                (IF inl[i] THEN PadTo(kids[i].d, osz) ELSE LESmallN(hdr + keyA + SumLen(dlens, out, i - 1), osz))]) \o
                      Concat(keys) \o
                      Concat([i \in 1..cnt |-> IF inl[i] THEN <<>> ELSE kids[i].d])]
  IN CHOOSE r \in {IF ~force /\ sm.tot <= 65535 /\ cnt <= 65535
                    THEN [t |-> IF isObj THEN 0 ELSE 2, d |-> sm.bytes]
                    ELSE [t |-> IF isObj THEN 1 ELSE 3, d |-> Build(TRUE).bytes]
                    : sm \in {Build(FALSE)}} : TRUE

RECURSIVE Jsonb(_, _)
Jsonb(n, force) ==
  CASE n.k = "lit" -> [t |-> 4, d |-> <<(CASE n.v = "null" -> 0 [] n.v = "true" -> 1 [] n.v = "false" -> 2)>>]
    [] n.k = "int" ->
         (CASE n.w = "i16" -> [t |-> 5, d |-> LETextSigned(n.dec, 2)]
            [] n.w = "u16" -> [t |-> 6, d |-> LEText(n.dec, 2)]
            [] n.w = "i32" -> [t |-> 7, d |-> LETextSigned(n.dec, 4)]
            [] n.w = "u32" -> [t |-> 8, d |-> LEText(n.dec, 4)]
            [] n.w = "i64" -> [t |-> 9, d |-> LETextSigned(n.dec, 8)]
            [] n.w = "u64" -> [t |-> 10, d |-> LEText(n.dec, 8)])
    [] n.k = "dbl" -> [t |-> 11, d |-> n.bits]
    [] n.k = "str" -> [t |-> 12, d |-> VarLen(Len(n.s)) \o n.s]
    [] n.k = "date" -> [t |-> 15, d |-> <<10>> \o VarLen(8) \o PackedDT(n.y, n.m, n.d, 0, 0, 0, 0)]
    [] n.k = "datetime" -> [t |-> 15, d |-> <<12>> \o VarLen(8) \o PackedDT(n.y, n.m, n.d, n.h, n.mi, n.s, n.us)]
    [] n.k = "time" -> [t |-> 15, d |-> <<11>> \o VarLen(8) \o PackedTime(n.neg, n.h, n.mi, n.s, n.us)]
    [] n.k = "dec" -> [t |-> 15, d |-> <<246>> \o VarLen(2 + Len(n.raw)) \o <<n.p, n.sc>> \o n.raw]
    [] n.k = "obj" ->
         CHOOSE r \in {ContainerOf(TRUE, [i \in 1..Len(n.kv) |-> n.kv[i].key], ks, force)
                          : ks \in {[i \in 1..Len(n.kv) |-> Jsonb(n.kv[i].v, force)]}} : TRUE
    [] n.k = "arr" ->
         CHOOSE r \in {ContainerOf(FALSE, [i \in 1..Len(n.xs) |-> <<>>], ks, force)
                          : ks \in {[i \in 1..Len(n.xs) |-> Jsonb(n.xs[i], force)]}} : TRUE

JsonbDoc(doc, force) == LET r == Jsonb(doc, force) IN <<r.t>> \o r.d
=============================================================================
