SPECIFICATION TSpec
CONSTANTS
  MaxPkts = 100000
  MaxAttempts = 3
  MaxErrorCalls = 2
  Defects = {"ctxAtErrorTime"}
CONSTRAINT HighWater
INVARIANT TraceSafe
POSTCONDITION Accepted
CHECK_DEADLOCK FALSE
