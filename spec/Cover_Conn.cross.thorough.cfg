SPECIFICATION CSpec
CONSTANTS
  MaxPkts = 2
  MaxAttempts = 2
  MaxErrorCalls = 1
  Defects = {"ctxAtErrorTime"}
  CrossOnly = TRUE
VIEW CrossView
ACTION_CONSTRAINT EdgeEmit
CHECK_DEADLOCK FALSE
