----------------------------- MODULE Gen_GTIDSet -----------------------------
(* Scenario generator for C18: every GTID set over U server ids and sequence numbers 1..W, one JSON line per set
   ("masks": per server id the bit mask of its members).  The harness builds each set on the real type from the
   binary SID-block form and applies every AddGTID / ContainsGTID in the window and the pairwise tests. *)
EXTENDS Naturals, Sequences, TLC, Json
CONSTANTS U, W
VARIABLE masks
Init == masks = <<>>
Next == Len(masks) < U /\ \E m \in 0..(2^W - 1) : masks' = Append(masks, m)
Spec == Init /\ [][Next]_masks
Emit == Len(masks) = U => PrintT(ToJson([masks |-> masks, w |-> W]))
=============================================================================
