----------------------------- MODULE Gen_Session -----------------------------
(***************************************************************************)
(* Session generator: the behaviours of MC_Session (one Streamer object    *)
(* over several attempts with faults) exported as replayable plans.  The   *)
(* history variable `hist` records, per attempt, which fault action of the *)
(* model ended it and after how many consumed packets, together with the   *)
(* model's prediction of the abstract state after the attempt (number of   *)
(* transactions accepted so far).  Every session that ends with a clean    *)
(* attempt is printed once as a JSON value; the harness builds the very    *)
(* same log (same units, same statement shapes, hence the same packet      *)
(* sequence), executes the attempts against the real Streamer and records   *)
(* the hook-level trace, which Trace_Stream replays against Streamer!Step   *)
(* packet by packet (monitor DRIFT.parser) and against the predictions      *)
(* carried in the plan (DRIFT.session).  The properties themselves are      *)
(* decided by the C04 / C07 / C17 monitors on the same trace.               *)
(***************************************************************************)
EXTENDS MC_Session, Json

VARIABLE hist
gvars == <<svars, hist>>

Consumed == Len(Served(files, dumps[Len(dumps)])) - Len(rest)

NewAtt == [fault |-> "none", at |-> 0, k |-> 0, tbl |-> "", acc |-> 0, n |-> 0]
SetLast(f) == hist' = [hist EXCEPT ![Len(hist)] = f]
Mark(fault, tbl) == SetLast([hist[Len(hist)] EXCEPT !.fault = fault, !.at = Consumed, !.k = Len(st.delivered), !.tbl = tbl])

GInit == Init /\ hist = <<>>

GNext ==
  \/ StartAttempt /\ nowPos \in Boundaries /\ hist' = Append(hist, NewAtt)
  \/ Recv /\ UNCHANGED hist
  \/ FaultHandler /\ Mark("handler", "")
  \/ FaultStop /\ Mark("stop", "")
  \/ FaultConnect /\ hist' = Append(hist, [NewAtt EXCEPT !.fault = "connect", !.acc = Len(accAll)])
  \/ \E m \in {"err", "mismatch"} : FaultMapper(m) /\ Mark("mapper-" \o m, Head(rest).tbl.name)
  \/ \E k \in {"invalid", "rand"} : FaultInject(k) /\ Mark("inject-" \o k, "")
  \/ EndAttempt /\ SetLast([hist[Len(hist)] EXCEPT !.acc = Len(accAll),
                                                     !.n = Consumed + (IF hist[Len(hist)].fault \in {"inject-invalid", "inject-rand"} THEN 1 ELSE 0)])

GSpec == GInit /\ [][GNext]_gvars

RECURSIVE UnitKinds(_)
UnitKinds(fs) == IF fs = <<>> THEN <<>> ELSE [j \in 1..Len(Head(fs).units) |-> Head(fs).units[j].u] \o UnitKinds(Tail(fs))

\* a finished session: idle, the last attempt consumed the whole stream without a fault
Finished == phase = "idle" /\ att >= 1 /\ cleanEnd

Emit == Finished => PrintT(ToJson([units |-> UnitKinds(files), attempts |-> hist, expected |-> Len(Expected)]))

\* the generated sessions satisfy the session properties (sanity: same as MC_Session)
GenOK == ExactlyOnce /\ Complete
=============================================================================
