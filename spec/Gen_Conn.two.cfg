SPECIFICATION GSpec
CONSTANTS
  MaxPkts = 2
  MaxAttempts = 2
  MaxErrorCalls = 2
  Defects = {"ctxAtErrorTime"}
  Depth = 90
INVARIANT Emit
CHECK_DEADLOCK FALSE
