SPECIFICATION Spec
CONSTANTS
  U = 2
  W = 6
INVARIANT Emit
CHECK_DEADLOCK FALSE
