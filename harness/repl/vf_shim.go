package replication

// Shim compiled into package replication by the verification harness (go test -overlay); it only
// exposes the two unexported flavor parsers that C19 names ("the flavor's own parser").

// VfParseGTIDSet calls the registered GTID-set parser of the flavor.
func VfParseGTIDSet(flavor, s string) (GTIDSet, error) {
	p, ok := gtidSetParsers[flavor]
	if !ok {
		return nil, nil
	}
	return p(s)
}
