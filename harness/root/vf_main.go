package gobinlog_test

import (
	"bufio"
	"encoding/json"
	"math/rand"
	"os"
	"strconv"
	"testing"
)

// TestVerif is the single entry point of the harness binary. It is a no-op unless VERIF_MODE is set.
func TestVerif(t *testing.T) {
	mode := os.Getenv("VERIF_MODE")
	if mode == "" {
		t.Skip("VERIF_MODE not set")
	}
	seed, _ := strconv.ParseInt(os.Getenv("VERIF_SEED"), 10, 64)
	tier := os.Getenv("VERIF_TIER")
	if tier == "" {
		tier = "quick"
	}
	out := os.Getenv("VERIF_OUT")
	rec, err := NewRecorder(out)
	if err != nil {
		t.Fatal(err)
	}
	defer rec.Close()
	env := &Env{Seed: seed, Tier: tier, Rec: rec, In: os.Getenv("VERIF_IN"), R: rand.New(rand.NewSource(seed))}
	f, ok := modes[mode]
	if !ok {
		t.Fatalf("unknown VERIF_MODE %q", mode)
	}
	f(env)
}

// Env is what a mode gets.
type Env struct {
	Seed int64
	Tier string
	Rec  *Recorder
	In   string
	R    *rand.Rand
}

func (e *Env) Thorough() bool { return e.Tier == "thorough" }

// N picks the quick or thorough value.
func (e *Env) N(q, t int) int {
	if e.Thorough() {
		return t
	}
	return q
}

// ReadScenarios reads the ndjson file produced by a TLC Gen_ run (one JSON value per line).
func (e *Env) ReadScenarios() []map[string]interface{} {
	var out []map[string]interface{}
	if e.In == "" {
		return out
	}
	f, err := os.Open(e.In)
	if err != nil {
		panic(err)
	}
	defer f.Close()
	sc := bufio.NewScanner(f)
	sc.Buffer(make([]byte, 1<<20), 1<<26)
	for sc.Scan() {
		var m map[string]interface{}
		if err := json.Unmarshal(sc.Bytes(), &m); err != nil {
			continue
		}
		out = append(out, m)
	}
	return out
}

var modes = map[string]func(*Env){}
