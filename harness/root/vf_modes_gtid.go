package gobinlog_test

// GTID family (C18, C19): the exported GTID / GTIDSet API called directly; one `case` line per call.

import (
	"strings"
	"errors"
	"bytes"
	"encoding/binary"
	"math/rand"
	"sort"
	"strconv"

	"github.com/Breeze0806/gobinlog/replication"
)

type ivl struct{ S, E int64 }
type sidEntry struct {
	Sid [16]byte
	Ivs []ivl
}

func sidN(n int) [16]byte {
	var s [16]byte
	// distinct, not in byte order of n (so that sorting by bytes matters)
	for i := range s {
		s[i] = byte((n*37 + i*11) % 251)
	}
	s[0] = byte(200 - 13*n)
	return s
}

func repJ(rep []sidEntry) []M {
	out := []M{}
	for _, en := range rep {
		ivs := []M{}
		for _, iv := range en.Ivs {
			ivs = append(ivs, M{"s": iv.S, "e": iv.E, "st": B(strconv.FormatInt(iv.S, 10)), "et": B(strconv.FormatInt(iv.E, 10)),
				"s8": B(le64(uint64(iv.S))), "e8": B(le64(uint64(iv.E))), "x8": B(le64(uint64(iv.E + 1)))})
		}
		out = append(out, M{"sid": B(append([]byte{}, en.Sid[:]...)), "ivs": ivs})
	}
	return out
}

// small reps carry TLC-sized ints; wide ones only the texts/bytes (s,e set to 0)
func repJWide(rep []sidEntry) []M {
	out := repJ(rep)
	for _, en := range out {
		for _, iv := range en["ivs"].([]M) {
			iv["s"], iv["e"] = 0, 0
		}
	}
	return out
}

func buildSet(rep []sidEntry) replication.Mysql56GTIDSet {
	// canonical order: SIDs ascending by bytes
	sorted := append([]sidEntry{}, rep...)
	sort.Slice(sorted, func(i, j int) bool { return bytes.Compare(sorted[i].Sid[:], sorted[j].Sid[:]) < 0 })
	var sids [][16]byte
	var ivs [][][2]int64
	for _, en := range sorted {
		sids = append(sids, en.Sid)
		var x [][2]int64
		for _, iv := range en.Ivs {
			x = append(x, [2]int64{iv.S, iv.E})
		}
		ivs = append(ivs, x)
	}
	set, err := replication.NewMysql56GTIDSetFromSIDBlock(sidBlock(sids, ivs))
	if err != nil {
		// the library refused the binary form of a canonical set: recorded by the caller, never a harness crash
		buildErr = err.Error()
		return replication.Mysql56GTIDSet{}
	}
	buildErr = ""
	return set
}

// buildErr is the error (if any) of the last buildSet call.
var buildErr string

// repFromMask: members of sid u are the set bits of mask (bit k = sequence number k+1)
func repFromMasks(masks []int, w int) []sidEntry {
	var rep []sidEntry
	for u, m := range masks {
		var ivs []ivl
		for k := 0; k < w; k++ {
			if m&(1<<uint(k)) != 0 {
				n := int64(k + 1)
				if len(ivs) > 0 && ivs[len(ivs)-1].E == n-1 {
					ivs[len(ivs)-1].E = n
				} else {
					ivs = append(ivs, ivl{n, n})
				}
			}
		}
		if len(ivs) > 0 {
			rep = append(rep, sidEntry{sidN(u + 1), ivs})
		}
	}
	return rep
}

func randRep(r *rand.Rand, nsid int, maxIv int, limit int64) []sidEntry {
	var rep []sidEntry
	for u := 0; u < nsid; u++ {
		n := 1 + r.Intn(maxIv)
		var ivs []ivl
		cur := int64(1 + r.Intn(5))
		for i := 0; i < n; i++ {
			span := int64(r.Intn(4))
			if r.Intn(4) == 0 {
				span = r.Int63n(limit / int64(4*n+4))
			}
			if cur+span >= limit {
				break
			}
			ivs = append(ivs, ivl{cur, cur + span})
			gap := int64(2 + r.Intn(3))
			if r.Intn(3) == 0 {
				gap = 2 + r.Int63n(limit/int64(4*n+4))
			}
			cur = cur + span + gap
			if cur >= limit-2 {
				break
			}
		}
		if len(ivs) > 0 {
			rep = append(rep, sidEntry{sidN(u + 1 + r.Intn(50)*4), ivs})
		}
	}
	// distinct sids
	seen := map[[16]byte]bool{}
	var out []sidEntry
	for _, en := range rep {
		if !seen[en.Sid] {
			seen[en.Sid] = true
			out = append(out, en)
		}
	}
	return out
}

func init() {
	modes["c18"] = modeC18
	modes["c19"] = modeC19
}

func modeC18(e *Env) {
	// (a) every set in the window (reps enumerated by TLC: one line per set, masks per sid) x every g; pairs
	var reps [][]sidEntry
	W := 0
	for _, s := range e.ReadScenarios() {
		ms, _ := s["masks"].([]interface{})
		w, _ := s["w"].(float64)
		W = int(w)
		var masks []int
		for _, m := range ms {
			masks = append(masks, int(m.(float64)))
		}
		reps = append(reps, repFromMasks(masks, W))
	}
	U := 2
	for _, rep := range reps {
		set := buildSet(rep)
		for u := 1; u <= U+1; u++ {
			for n := int64(1); n <= int64(W)+1; n++ {
				g := replication.Mysql56GTID{Server: replication.SID(sidN(u)), Sequence: n}
				addCase(e, "window", rep, set, g)
			}
		}
	}
	// pairs: all in thorough, a covering sample in quick
	np := len(reps)
	stride := 1
	limit := e.N(6000, 250000)
	if np*np > limit {
		stride = np*np/limit + 1
	}
	k := e.R.Intn(stride)
	for ; k < np*np; k += stride {
		a, b := reps[k/np], reps[k%np]
		pairCase(e, "window", a, b)
	}
	// (b) random wide sets: add histories of up to 12 operations, pairs
	n := e.N(150, 2500)
	for i := 0; i < n; i++ {
		rep := randRep(e.R, 1+e.R.Intn(4), 5, 1<<31-10)
		// server ids that share their first k bytes (k = 0..15 in turn) and differ arbitrarily after them: the order of the
		// canonical form is the order of ALL sixteen bytes
		near := nearSids(e.R, len(rep)+3, i%16)
		if i%2 == 0 {
			for j := range rep {
				rep[j].Sid = near[j]
			}
		}
		set := buildSet(rep)
		var ops []M
		var obs []M
		// every set obtained so far stays alive; a later AddGTID may take ANY of them as receiver (forks), and after each
		// call the text of every set is read again: no call may change a set that already exists
		all := []replication.GTIDSet{set}
		nops := 1 + e.R.Intn(12)
		for j := 0; j < nops; j++ {
			ri := len(all) - 1
			if e.R.Intn(3) == 0 {
				ri = e.R.Intn(len(all))
			}
			cur := all[ri]
			var g replication.Mysql56GTID
			// aim at interval edges half of the time
			if len(rep) > 0 && e.R.Intn(2) == 0 {
				en := rep[e.R.Intn(len(rep))]
				iv := en.Ivs[e.R.Intn(len(en.Ivs))]
				cands := []int64{iv.S - 1, iv.S, iv.E, iv.E + 1, iv.E + 2, iv.S - 2, iv.E + 10 + int64(e.R.Intn(5))}
				seq := cands[e.R.Intn(len(cands))]
				if seq < 1 {
					seq = 1
				}
				g = replication.Mysql56GTID{Server: replication.SID(en.Sid), Sequence: seq}
			} else if e.R.Intn(2) == 0 && len(rep) > 0 {
				// past the end of a server's last interval (appends)
				en := rep[e.R.Intn(len(rep))]
				last := en.Ivs[len(en.Ivs)-1]
				g = replication.Mysql56GTID{Server: replication.SID(en.Sid), Sequence: last.E + 2 + int64(j*7) + int64(e.R.Intn(5))}
			} else {
				g = replication.Mysql56GTID{Server: replication.SID(sidN(1 + e.R.Intn(6))), Sequence: 1 + e.R.Int63n(1<<31-12)}
				if i%2 == 0 {
					g.Server = replication.SID(near[e.R.Intn(len(near))])
				}
			}
			next := cur.AddGTID(g)
			all = append(all, next)
			texts := []B{}
			for _, x := range all {
				texts = append(texts, B(x.String()))
			}
			ops = append(ops, M{"sid": B(append([]byte{}, g.Server[:]...)), "n": g.Sequence, "recv": ri})
			obs = append(obs, M{"texts": texts, "has": next.ContainsGTID(g)})
		}
		emitCase(e, M{"fn": "gs56.history", "cls": "wide", "rep": repJ(rep), "ops": ops, "obs": obs})
		rep2 := randRep(e.R, 1+e.R.Intn(4), 5, 1<<31-10)
		if e.R.Intn(2) == 0 {
			// a subset-ish variant of rep
			rep2 = nil
			for _, en := range rep {
				if e.R.Intn(3) != 0 {
					var ivs []ivl
					for _, iv := range en.Ivs {
						if e.R.Intn(3) != 0 {
							s, t := iv.S, iv.E
							if t > s && e.R.Intn(2) == 0 {
								s++
							}
							ivs = append(ivs, ivl{s, t})
						}
					}
					if len(ivs) > 0 {
						rep2 = append(rep2, sidEntry{en.Sid, ivs})
					}
				}
			}
		}
		pairCase(e, "wide", rep, rep2)
		pairCase(e, "wide", rep2, rep)
		pairCase(e, "wide", rep, rep)
	}
}

func addCase(e *Env, cls string, rep []sidEntry, set replication.Mysql56GTIDSet, g replication.Mysql56GTID) {
	before := set.String()
	beforeBlock := set.SIDBlock()
	has := set.ContainsGTID(g)
	r := set.AddGTID(g)
	emitCase(e, M{"fn": "gs56.add", "cls": cls, "rep": repJ(rep), "sid": B(g.Server[:]), "n": g.Sequence,
		"obs": M{"buildErr": buildErr, "text": B(r.String()), "recvText": B(set.String()), "recvSame": before == set.String() && bytes.Equal(beforeBlock, set.SIDBlock()),
			"had": has, "has": r.ContainsGTID(g), "flavor": r.Flavor()}})
}

func pairCase(e *Env, cls string, a, b []sidEntry) {
	sa, sb := buildSet(a), buildSet(b)
	emitCase(e, M{"fn": "gs56.pair", "cls": cls, "a": repJ(a), "b": repJ(b),
		"obs": M{"contains": sa.Contains(sb), "equal": sa.Equal(sb)}})
}

// nearSids returns n distinct server ids with a common prefix of k bytes.
func nearSids(r *rand.Rand, n int, k int) [][16]byte {
	var base [16]byte
	r.Read(base[:])
	seen := map[[16]byte]bool{}
	var out [][16]byte
	for len(out) < n {
		s := base
		r.Read(s[k:])
		if !seen[s] {
			seen[s] = true
			out = append(out, s)
		}
	}
	return out
}

// ---- C19 ---------------------------------------------------------------------------------------

func specialSid(r *rand.Rand) [16]byte {
	var s [16]byte
	switch r.Intn(5) {
	case 0:
	case 1:
		for i := range s {
			s[i] = 0xff
		}
	case 2:
		s[r.Intn(16)] = byte(1 + r.Intn(255))
	default:
		r.Read(s[:])
	}
	return s
}

func specialGno(r *rand.Rand) int64 {
	switch r.Intn(5) {
	case 0:
		return []int64{1, 2, 1<<31 - 1, 1 << 31, 1<<32 - 1, 1 << 32, 1<<63 - 1, 1<<63 - 2}[r.Intn(8)]
	case 1:
		return 1 + r.Int63n(1000)
	}
	return 1 + r.Int63n(1<<63-1)
}

func special32(r *rand.Rand) uint32 {
	switch r.Intn(4) {
	case 0:
		return []uint32{0, 1, 1<<31 - 1, 1 << 31, 1<<32 - 1}[r.Intn(5)]
	}
	return r.Uint32()
}

var prevSet56 replication.Mysql56GTIDSet

func gtidTexts(g replication.GTID, flavor string) M {
	t1 := g.String()
	m := M{"text": B(t1), "flavor": g.Flavor()}
	p, err := replication.ParseGTID(flavor, t1)
	if err == nil {
		// texts that are refused - the same shape with other digits and one bad digit at the end, a cut one, an empty one -
		// are parsed in between, and then the valid text once more: what a text parses to does not depend on what was
		// parsed before
		bad := []byte(t1)
		for i, c := range bad {
			if k := strings.IndexByte("0123456789abcdef0123456789ABCDEF", c); i < 36 && k >= 0 {
				bad[i] = "123456789abcdef0"[k%16]
			}
		}
		if len(bad) > 36 {
			bad[35] = 'g'
		}
		for _, b := range []string{string(bad), t1[:len(t1)/2], "", strings.Replace(t1, "-", "", 1)} {
			replication.ParseGTID(flavor, b)
			replication.ParseSID(b)
		}
		p2, err2 := replication.ParseGTID(flavor, t1)
		if err2 != nil || p2 != p {
			p, err = p2, err2
			if err == nil && p == g {
				err = errors.New("the same text parsed to two different values")
			}
		}
	}
	if err != nil {
		m["parseErr"], m["text2"], m["eq"] = true, B(nil), false
	} else {
		m["parseErr"], m["text2"], m["eq"] = false, B(p.String()), p == g
	}
	enc := replication.EncodeGTID(g)
	m["enc"] = B(enc)
	d, err := replication.DecodeGTID(enc)
	if err != nil || d == nil {
		m["decErr"], m["text3"], m["eq3"] = true, B(nil), false
	} else {
		m["decErr"], m["text3"], m["eq3"] = false, B(d.String()), d == g
	}
	// the single-GTID set of the same flavor
	m["setText"] = B(g.GTIDSet().String())
	return m
}

func modeC19(e *Env) {
	f := realFormat(codecCfg)
	crcCfg := codecCfg
	crcCfg.Checksum = true
	fcrc := realFormat(crcCfg)
	n := e.N(200, 6000)
	for i := 0; i < n; i++ {
		// (1) MySQL 5.6 GTID
		sid := specialSid(e.R)
		gno := specialGno(e.R)
		g := replication.Mysql56GTID{Server: replication.SID(sid), Sequence: gno}
		emitCase(e, M{"fn": "gtid56", "cls": "gtid56", "sid": B(sid[:]), "gno": B(strconv.FormatInt(gno, 10)), "obs": gtidTexts(g, "MySQL56")})
		// (1b) GTID event body
		l := &Log{Cfg: codecCfg}
		ev := &Ev{K: "gtid", TS: 5, Sid: sid, Gno: gno}
		l.layoutEv(ev, 4)
		be := replication.NewMysql56BinlogEvent(ev.Bytes)
		gg, _, gerr := be.GTID(f)
		o := M{"err": gerr != nil, "text": B(nil), "isgtid": be.IsGTID()}
		if gerr == nil {
			o["text"] = B(gg.String())
		}
		emitCase(e, M{"fn": "gtid56.event", "cls": "gtid56", "sid": B(sid[:]), "gno": B(strconv.FormatInt(gno, 10)), "obs": o})
		// (2) MariaDB GTID
		dom, srv, seq := special32(e.R), special32(e.R), uint64(specialGno(e.R))
		if e.R.Intn(6) == 0 {
			seq = []uint64{0, 1<<64 - 1, 1 << 63}[e.R.Intn(3)]
		}
		mg := replication.MariadbGTID{Domain: dom, Server: srv, Sequence: seq}
		emitCase(e, M{"fn": "gtidmaria", "cls": "maria", "dom": B(strconv.FormatUint(uint64(dom), 10)), "srv": B(strconv.FormatUint(uint64(srv), 10)),
			"sq": B(strconv.FormatUint(seq, 10)), "obs": gtidTexts(mg, "MariaDB")})
		// (2b) MariaDB GTID event: sequence (8) domain (4) flags2 (1); server id from the header
		flags2 := byte(e.R.Intn(256))
		body := append(le64(seq), le32(dom)...)
		body = append(body, flags2)
		body = append(body, randBytes(e.R, 6)...)
		raw := mkEvent(7, 162, srv, 900, 0, body, false)
		me := replication.NewMariadbBinlogEvent(raw)
		mgg, begin, merr := me.GTID(f)
		mo := M{"err": merr != nil, "text": B(nil), "begin": begin, "isgtid": me.IsGTID()}
		if merr == nil {
			mo["text"] = B(mgg.String())
		}
		emitCase(e, M{"fn": "gtidmaria.event", "cls": "maria", "dom": B(strconv.FormatUint(uint64(dom), 10)), "srv": B(strconv.FormatUint(uint64(srv), 10)),
			"sq": B(strconv.FormatUint(seq, 10)), "standalone": flags2&1 == 1, "obs": mo})
	}
	// (3) MySQL 5.6 sets of 0..8 members with wide intervals: print / parse / SID block / PREVIOUS_GTIDS event
	m := e.N(120, 3000)
	for i := 0; i < m; i++ {
		rep := randRep(e.R, e.R.Intn(9), 4, 1<<62)
		if i%10 == 0 {
			rep = nil
		}
		near := nearSids(e.R, len(rep)+1, (i/3)%16)
		for j := range rep {
			rep[j].Sid = specialSid(e.R)
			if j > 0 && rep[j].Sid == rep[j-1].Sid {
				rep[j].Sid[3] ^= 0x55
			}
			if i%3 == 2 {
				rep[j].Sid = near[j] // members that share their first k bytes: the canonical order looks at all sixteen
			}
		}
		uniq := map[[16]byte]bool{}
		var rr []sidEntry
		for _, en := range rep {
			if !uniq[en.Sid] {
				uniq[en.Sid] = true
				rr = append(rr, en)
			}
		}
		rep = rr
		if len(rep) > 0 && i%4 == 1 {
			// the top of the sequence-number range: the last interval of some server ends at (or is) 2^63-1
			en := &rep[e.R.Intn(len(rep))]
			last := &en.Ivs[len(en.Ivs)-1]
			if e.R.Intn(2) == 0 {
				last.E = 1<<63 - 1
			} else {
				en.Ivs = append(en.Ivs, ivl{1<<63 - 1 - int64(e.R.Intn(2)), 1<<63 - 1})
				if en.Ivs[len(en.Ivs)-2].E >= en.Ivs[len(en.Ivs)-1].S-1 {
					en.Ivs = en.Ivs[:len(en.Ivs)-1]
					en.Ivs[len(en.Ivs)-1].E = 1<<63 - 1
				}
			}
		}
		set := buildSet(rep)
		t1 := set.String()
		o := M{"text": B(t1), "flavor": set.Flavor(), "buildErr": buildErr}
		p, err := replication.VfParseGTIDSet("MySQL56", t1)
		if err != nil || p == nil {
			o["parseErr"], o["text2"], o["eq"] = true, B(nil), false
		} else {
			o["parseErr"], o["text2"], o["eq"] = false, B(p.String()), p.Equal(set) && set.Equal(p)
		}
		blk := set.SIDBlock()
		// (the block of another set is produced before this one is looked at: a block that was handed out stays what it was)
		if prevSet56 != nil {
			prevSet56.SIDBlock()
		}
		prevSet56 = set
		o["block"] = B(blk)
		s2, err := replication.NewMysql56GTIDSetFromSIDBlock(blk)
		if err != nil {
			o["blockErr"], o["text3"], o["eq3"] = true, B(nil), false
		} else {
			o["blockErr"], o["text3"], o["eq3"] = false, B(s2.String()), s2.Equal(set)
		}
		// PREVIOUS_GTIDS event carrying the block written by the harness
		var sids [][16]byte
		var ivs [][][2]int64
		srt := append([]sidEntry{}, rep...)
		sort.Slice(srt, func(a, b int) bool { return bytes.Compare(srt[a].Sid[:], srt[b].Sid[:]) < 0 })
		for _, en := range srt {
			sids = append(sids, en.Sid)
			var x [][2]int64
			for _, iv := range en.Ivs {
				x = append(x, [2]int64{iv.S, iv.E})
			}
			ivs = append(ivs, x)
		}
		raw := mkEvent(9, tPreviousGtids, 1, 700, 0, sidBlock(sids, ivs), i%2 == 1)
		var pe replication.BinlogEvent = replication.NewMysql56BinlogEvent(raw)
		pf := f
		if i%2 == 1 {
			// as read from a stream with CRC32 checksums: the checksum is stripped first, the format still says CRC32
			pf = fcrc
			pe, _, _ = pe.StripChecksum(fcrc)
		}
		ps, perr := pe.PreviousGTIDs(pf)
		if perr != nil || ps == nil {
			o["prevErr"], o["text4"] = true, B(nil)
		} else {
			o["prevErr"], o["text4"] = false, B(ps.String())
		}
		emitCase(e, M{"fn": "gs56.codec", "cls": "set56", "rep": repJWide(rep), "obs": o})
	}
	// (4) MariaDB sets: print / parse of 1..8 members, histories of AddGTID, containment
	for i := 0; i < e.N(150, 4000); i++ {
		nm := 1 + e.R.Intn(8)
		var set replication.MariadbGTIDSet
		var entries []M
		usedDom := map[uint32]bool{}
		for j := 0; j < nm; j++ {
			d := uint32(e.R.Intn(6))
			if e.R.Intn(4) == 0 {
				d = uint32(e.R.Intn(1000000000)) // wide, but inside TLC's integer range (the full 32-bit range is in fn=gtidmaria)
			}
			if usedDom[d] {
				continue
			}
			usedDom[d] = true
			g := replication.MariadbGTID{Domain: d, Server: uint32(1 + e.R.Intn(3)), Sequence: uint64(1 + e.R.Intn(20))}
			set = append(set, g)
			entries = append(entries, M{"dom": int64(g.Domain), "srv": int64(g.Server), "seq": int64(g.Sequence)})
		}
		// an independent copy taken BEFORE anything is printed: reading a set (String) must not change it, and the
		// parsed text must equal the set as it was
		orig := append(replication.MariadbGTIDSet{}, set...)
		t1 := set.String()
		o := M{"text": B(t1), "unchangedByString": set.Equal(orig) && orig.Equal(set)}
		p, err := replication.VfParseGTIDSet("MariaDB", t1)
		if err != nil || p == nil {
			o["parseErr"], o["text2"], o["eq"] = true, B(nil), false
		} else {
			o["parseErr"], o["text2"], o["eq"] = false, B(p.String()), p.Equal(orig) && orig.Equal(p)
		}
		// history of adds on the set
		var ops, obs []M
		cur := replication.GTIDSet(set)
		for j := 0; j < 1+e.R.Intn(6); j++ {
			g := replication.MariadbGTID{Domain: uint32(e.R.Intn(7)), Server: uint32(1 + e.R.Intn(3)), Sequence: uint64(1 + e.R.Intn(25))}
			if len(set) > 0 && e.R.Intn(2) == 0 {
				g.Domain = set[e.R.Intn(len(set))].Domain
			}
			before := cur.String()
			had := cur.ContainsGTID(g)
			next := cur.AddGTID(g)
			ops = append(ops, M{"dom": int64(g.Domain), "srv": int64(g.Server), "seq": int64(g.Sequence)})
			obs = append(obs, M{"text": B(next.String()), "recvText": B(cur.String()), "recvSame": before == cur.String(), "had": had,
				"has": next.ContainsGTID(g), "sup": next.Contains(cur)})
			cur = next
		}
		// containment between two sets: the other one lists (some of) the same domains in ANOTHER order, with smaller,
		// equal or greater sequence numbers, and possibly a domain of its own
		var other replication.MariadbGTIDSet
		oentries := []M{}
		for _, j := range e.R.Perm(len(set)) {
			if e.R.Intn(4) == 0 {
				continue
			}
			g := set[j]
			switch e.R.Intn(3) {
			case 0:
				if g.Sequence > 1 {
					g.Sequence -= uint64(1 + e.R.Intn(int(g.Sequence-1)+1))
					if g.Sequence == 0 {
						g.Sequence = 1
					}
				}
			case 1:
				g.Sequence += uint64(e.R.Intn(3))
			}
			g.Server = uint32(1 + e.R.Intn(3))
			other = append(other, g)
			oentries = append(oentries, M{"dom": int64(g.Domain), "srv": int64(g.Server), "seq": int64(g.Sequence)})
		}
		if e.R.Intn(5) == 0 {
			g := replication.MariadbGTID{Domain: 900 + uint32(e.R.Intn(5)), Server: 1, Sequence: uint64(1 + e.R.Intn(9))}
			other = append(other, g)
			oentries = append(oentries, M{"dom": int64(g.Domain), "srv": int64(g.Server), "seq": int64(g.Sequence)})
		}
		o["contains"], o["containedBy"] = orig.Contains(other), other.Contains(orig)
		emitCase(e, M{"fn": "gsmaria", "cls": "maria-set", "entries": entries, "other": oentries, "ops": ops, "obs": o, "hist": obs})
	}
	_ = binary.LittleEndian
}
