package gobinlog_test

import (
	"fmt"
	"sync"
	"sync/atomic"
	"time"
)

// ---- schedule control: the library's hook points as scheduler gates ---------------------------------------------
//
// A script is a behaviour of spec/MC_Conn.tla exported by spec/Gen_Conn.tla: a list of steps [action, parameter...].
// While a scripted attempt runs, every goroutine of the library that arrives at a hook point (verifPoint) reports
// the arrival and blocks until the script grants it, so the real code takes its steps in the order TLC chose.
// The handler (harness code) is gated the same way ("handler.enter").  If the real code does something else than
// the script expects (Go picks among several ready select cases at random; a step the model allows may be impossible
// here) the script is abandoned: all gates open and the attempt ends like any other one.  Following or not following
// a script decides nothing; the attempt's observable outcome is judged by the usual monitors.

type arrival struct {
	g     int
	point string
}

type Sched struct {
	mu       sync.Mutex
	on       bool
	gates    map[int]chan struct{}
	at       map[int]string // goroutine -> hook point it is blocked at
	arrivals chan arrival
	caller   int            // goroutine running Stream (0: the next call has not registered yet)
	readers  map[string]int // attempt number of the script ("1", "2", ...) -> its reader goroutine
	cur      string         // attempt the script is in
	// handler result for the next HandlerOk / HandlerErr step
	handlerFail bool
}

var theSched atomic.Value // *Sched (nil pointer: none); read with one atomic load at every hook point

func currentSched() *Sched {
	s, _ := theSched.Load().(*Sched)
	return s
}

func setSched(s *Sched) { theSched.Store(s) }

func newSched() *Sched {
	return &Sched{on: true, gates: map[int]chan struct{}{}, at: map[int]string{}, arrivals: make(chan arrival, 4096), readers: map[string]int{}, cur: "0"}
}

// enter is called by a goroutine arriving at a hook point: report, then block until granted.
func (s *Sched) enter(point string) {
	g := goid()
	s.mu.Lock()
	if !s.on {
		s.mu.Unlock()
		return
	}
	ch := make(chan struct{})
	s.gates[g] = ch
	s.at[g] = point
	s.mu.Unlock()
	s.arrivals <- arrival{g, point}
	<-ch
}

func (s *Sched) grant(g int) {
	s.mu.Lock()
	ch := s.gates[g]
	delete(s.gates, g)
	delete(s.at, g)
	s.mu.Unlock()
	if ch != nil {
		close(ch)
	}
}

// freeRun opens every gate for good.
func (s *Sched) freeRun() {
	s.mu.Lock()
	s.on = false
	for g, ch := range s.gates {
		close(ch)
		delete(s.gates, g)
	}
	s.mu.Unlock()
}

func (s *Sched) where(g int) string {
	s.mu.Lock()
	defer s.mu.Unlock()
	return s.at[g]
}

var schedWait = 500 * time.Millisecond

// await waits until goroutine g (0: the first goroutine that is neither the caller nor the reader of an earlier attempt -
// the reader to be) is blocked at a hook point and returns it ("" on timeout).
func (s *Sched) await(g *int) string {
	deadline := time.After(schedWait)
	for {
		if *g != 0 {
			if p := s.where(*g); p != "" {
				return p
			}
		} else {
			s.mu.Lock()
			for og, p := range s.at {
				known := og == s.caller
				for _, rg := range s.readers {
					known = known || rg == og
				}
				if !known {
					*g = og
					s.mu.Unlock()
					return p
				}
			}
			s.mu.Unlock()
		}
		select {
		case <-s.arrivals:
		case <-deadline:
			return ""
		}
	}
}

// scriptRun carries what the interpreter needs from runAttempt.
type scriptRun struct {
	s          *Sched
	steps      [][]string
	done       <-chan struct{}             // closed when Stream returned
	cancel     func(why string)            // cancels the attempt's context (logs the cancel line first)
	emitReturn func()                      // logs the streamReturn line (once)
	callError  func() (<-chan error, int)  // starts Error() in a goroutine; returns its result channel and the call number
	emitError  func(call int, err error)   // logs the errorReturn line
	note       func(i int, want, got string) // logs a divergence
	errPending <-chan error
	errCall    int
}

func in(p string, xs ...string) bool {
	for _, x := range xs {
		if p == x {
			return true
		}
	}
	return false
}

// run interprets the script. It returns true when every step was followed.
func (r *scriptRun) run() (followed bool) {
	s := r.s
	fail := func(i int, want, got string) bool {
		r.note(i, want, got)
		return false
	}
	// step the caller: grant its current hook and wait for the next one (or for Stream's return)
	callerNext := func() string {
		s.grant(s.caller)
		c := s.caller
		// Stream may return instead of reaching another hook
		deadline := time.After(schedWait)
		for {
			if p := s.where(c); p != "" {
				return p
			}
			select {
			case <-s.arrivals:
			case <-r.done:
				if p := s.where(c); p != "" {
					return p
				}
				return "returned"
			case <-deadline:
				return ""
			}
		}
	}
	// the reader a step is about: reader steps name their attempt (last element); other steps mean the current attempt's
	reader := func(st []string) int {
		if len(st) >= 2 {
			if g, ok := s.readers[st[len(st)-1]]; ok {
				return g
			}
		}
		return s.readers[s.cur]
	}
	readerNextOf := func(g int) string {
		s.grant(g)
		// the goroutine ends after reader.exit: no further arrival
		return s.await(&g)
	}
	readerNext := func() string { return readerNextOf(s.readers[s.cur]) }
	// one full hand-off of a packet the reader holds: both sides meet, the reader goes back to its read
	take := func(i int) (string, bool) {
		rd := s.readers[s.cur]
		if s.where(s.caller) != "parser.select" || s.where(rd) != "reader.handoff" {
			return "", fail(i, "parser.select+reader.handoff", s.where(s.caller)+"+"+s.where(rd))
		}
		s.grant(rd)
		p := callerNext()
		if p != "parser.gotEvent" {
			return "", fail(i, "parser.gotEvent", p)
		}
		g := rd
		if q := s.await(&g); q != "reader.handedOff" {
			return "", fail(i, "reader.handedOff", q)
		}
		if q := readerNext(); q != "reader.read" {
			return "", fail(i, "reader.read", q)
		}
		p = callerNext() // parser.select | parser.handlerCall | stream.parsed
		if p == "parser.handlerCall" {
			p = callerNext()
		}
		return p, true
	}
	for i, st := range r.steps {
		arg := ""
		if len(st) > 1 {
			arg = st[1]
		}
		switch st[0] {
		case "Call":
			// the goroutine that calls Stream registers itself before the call
			for t0 := time.Now(); time.Since(t0) < schedWait; {
				s.mu.Lock()
				c := s.caller
				s.mu.Unlock()
				if c != 0 {
					break
				}
				time.Sleep(50 * time.Microsecond)
			}
			s.mu.Lock()
			g := s.caller
			s.mu.Unlock()
			if g == 0 {
				return fail(i, "stream.call", "Stream not called")
			}
			if p := s.await(&g); p != "stream.call" {
				return fail(i, "stream.call", p)
			}
			n := 0
			fmt.Sscanf(s.cur, "%d", &n)
			s.cur = fmt.Sprint(n + 1)
		case "ConnectOk", "SendSetOk", "SendDumpOk", "CloseSocket", "Break", "end":
			// no step of their own here (see DESIGN.md): connection stages run together at Spawn, the socket is closed
			// together with done, the master has sent everything it will send (and closed, if it breaks) up front
		case "ConnectFail":
			if p := callerNext(); p != "returned" {
				return fail(i, "returned", p)
			}
			r.emitReturn()
		case "SendSetFail", "SendDumpFail":
			if p := callerNext(); p != "close.begin" {
				return fail(i, "close.begin", p)
			}
			if p := callerNext(); p != "close.end" {
				return fail(i, "close.end", p)
			}
			if p := callerNext(); p != "returned" {
				return fail(i, "returned", p)
			}
			r.emitReturn()
		case "Spawn":
			if p := callerNext(); p != "stream.spawned" {
				return fail(i, "stream.spawned", p)
			}
			ng := 0
			p0 := s.await(&ng)
			s.mu.Lock()
			s.readers[s.cur] = ng
			s.mu.Unlock()
			if p0 != "reader.read" {
				return fail(i, "reader.read", p0)
			}
			if p := callerNext(); p != "parser.select" {
				return fail(i, "parser.select", p)
			}
			// prelude: the artificial ROTATE and the FORMAT_DESCRIPTION every dump starts with
			for k := 0; k < 2; k++ {
				if q := readerNext(); q != "reader.handoff" {
					return fail(i, "reader.handoff (prelude)", q)
				}
				if p, ok := take(i); !ok || p != "parser.select" {
					if ok {
						fail(i, "parser.select (prelude)", p)
					}
					return false
				}
			}
		case "ReaderRead":
			want := "reader.handoff"
			if !in(arg, "ev", "commit", "bad") {
				want = "reader.readError"
			}
			if p := s.where(reader(st)); p != "reader.read" {
				return fail(i, "reader at reader.read", p)
			}
			if q := readerNextOf(reader(st)); q != want {
				return fail(i, want, q)
			}
		case "ParserTakesEvent":
			p, ok := take(i)
			if !ok {
				return false
			}
			want := map[string]string{"ev": "parser.select", "commit": "handler.enter", "bad": "stream.parsed"}[arg]
			if p != want {
				return fail(i, want, p)
			}
		case "HandlerOk", "HandlerErr":
			if p := s.where(s.caller); p != "handler.enter" {
				return fail(i, "handler.enter", p)
			}
			s.mu.Lock()
			s.handlerFail = st[0] == "HandlerErr"
			s.mu.Unlock()
			want := []string{"parser.handlerOk", "parser.select"}
			if st[0] == "HandlerErr" {
				want = []string{"parser.handlerErr", "stream.parsed"}
			}
			for _, w := range want {
				if p := callerNext(); p != w {
					return fail(i, w, p)
				}
			}
		case "ParserSeesClosed", "ParserSeesCtx":
			if p := s.where(s.caller); p != "parser.select" {
				return fail(i, "parser.select", p)
			}
			w := "parser.sawClosed"
			if st[0] == "ParserSeesCtx" {
				w = "parser.sawCtx"
			}
			if p := callerNext(); p != w {
				return fail(i, w, p)
			}
			if p := callerNext(); p != "stream.parsed" {
				return fail(i, "stream.parsed", p)
			}
		case "CloseDone":
			if p := s.where(s.caller); p != "stream.parsed" {
				return fail(i, "stream.parsed", p)
			}
			if p := callerNext(); p != "close.begin" {
				return fail(i, "close.begin", p)
			}
			if p := callerNext(); p != "close.end" {
				return fail(i, "close.end", p)
			}
		case "Return":
			if p := s.where(s.caller); p != "close.end" {
				return fail(i, "close.end", p)
			}
			if p := callerNext(); p != "returned" {
				return fail(i, "returned", p)
			}
			r.emitReturn()
		case "ReaderSeesCtx", "ReaderSeesDone":
			if p := s.where(reader(st)); p != "reader.handoff" {
				return fail(i, "reader.handoff", p)
			}
			w := "reader.sawCtx"
			if st[0] == "ReaderSeesDone" {
				w = "reader.sawDone"
			}
			if q := readerNextOf(reader(st)); q != w {
				return fail(i, w, q)
			}
		case "ReaderPublish":
			p := s.where(reader(st))
			if p == "reader.sawDone" {
				break // nothing is published on this path
			}
			if !in(p, "reader.readError", "reader.sawCtx") {
				return fail(i, "reader.readError|reader.sawCtx", p)
			}
			if q := readerNextOf(reader(st)); q != "reader.published" {
				return fail(i, "reader.published", q)
			}
		case "ReaderCloseErr":
			if p := s.where(reader(st)); !in(p, "reader.published", "reader.sawDone") {
				return fail(i, "reader.published|reader.sawDone", p)
			}
			if q := readerNextOf(reader(st)); q != "reader.closeEvents" {
				return fail(i, "reader.closeEvents", q)
			}
		case "ReaderCloseEv":
			if p := s.where(reader(st)); p != "reader.closeEvents" {
				return fail(i, "reader.closeEvents", p)
			}
			if q := readerNextOf(reader(st)); q != "reader.exit" {
				return fail(i, "reader.exit", q)
			}
			s.grant(reader(st))
		case "Cancel":
			r.cancel("script")
		case "ErrorCall":
			if r.errPending != nil {
				return fail(i, "no Error() call in progress", "one in progress")
			}
			r.errPending, r.errCall = r.callError()
			if arg == "immediate" {
				select {
				case e := <-r.errPending:
					r.emitError(r.errCall, e)
					r.errPending = nil
				case <-time.After(schedWait):
					return fail(i, "Error() returns at once", "blocked")
				}
			}
		case "ErrorRecv":
			if r.errPending == nil {
				return fail(i, "an Error() call in progress", "none")
			}
			select {
			case e := <-r.errPending:
				r.emitError(r.errCall, e)
				r.errPending = nil
			case <-time.After(schedWait):
				return fail(i, "Error() returns", "blocked")
			}
		default:
			panic(fmt.Sprintf("script step %v", st))
		}
	}
	return true
}
