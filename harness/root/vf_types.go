package gobinlog_test

// Abstract vocabulary shared by all harnesses: tables, columns, cells, and generators of
// raw cell encodings (written from DESIGN.md Appendix A.5 / A.6, not from the Go decoder).

import (
	"encoding/binary"
	"fmt"
	"math"
	"math/rand"
)

// B is a byte string that marshals as a JSON array of numbers (TLC's Json module mangles
// non-ASCII strings; arrays of ints are exact).
type B []byte

func (b B) MarshalJSON() ([]byte, error) {
	out := make([]byte, 0, 2+4*len(b))
	out = append(out, '[')
	for i, v := range b {
		if i > 0 {
			out = append(out, ',')
		}
		out = append(out, fmt.Sprintf("%d", v)...)
	}
	out = append(out, ']')
	return out, nil
}

func (b *B) UnmarshalJSON(d []byte) error {
	var xs []int
	if err := jsonUnmarshal(d, &xs); err != nil {
		return err
	}
	*b = make([]byte, len(xs))
	for i, x := range xs {
		(*b)[i] = byte(x)
	}
	return nil
}

// Col is one column of a table as the master announces it (wire metadata bytes).
type Col struct {
	Name     string
	Typ      byte
	MetaB    []byte // metadata bytes exactly as written in the TABLE_MAP event
	Uns      bool   // mapper says: unsigned integer
	Nullable bool
	Kind     string // generator kind (see genCell)
	P1, P2   int    // generator parameters (max length / precision, scale / fsp / bits ...)
}

// Table is a table as announced by a TABLE_MAP event.
type Table struct {
	ID   uint64
	DB   string
	Name string
	Cols []Col
}

// Cell is one cell of a row image: absent from the image, SQL NULL, or a value with its raw encoding.
type Cell struct {
	St    string // "absent" | "null" | "val"
	Bytes []byte
}

// RowPair is the before/after image pair of one row (B unused for write, A unused for delete).
type RowPair struct {
	B []Cell
	A []Cell
}

// ---- column constructors -------------------------------------------------------------

func colInt(kind string, uns bool) Col {
	t := map[string]byte{"tiny": 1, "short": 2, "int24": 9, "long": 3, "longlong": 8}[kind]
	return Col{Typ: t, Uns: uns, Kind: kind}
}
func colFloat() Col  { return Col{Typ: 4, MetaB: []byte{4}, Kind: "float"} }
func colDouble() Col { return Col{Typ: 5, MetaB: []byte{8}, Kind: "double"} }
func colYear() Col   { return Col{Typ: 13, Kind: "year"} }
func colDate() Col   { return Col{Typ: 10, Kind: "date"} }
func colTimeOld() Col {
	return Col{Typ: 11, Kind: "time"}
}
func colDateTimeOld() Col  { return Col{Typ: 12, Kind: "datetime"} }
func colTimestampOld() Col { return Col{Typ: 7, Kind: "timestamp"} }
func colTimestamp2(fsp int) Col {
	return Col{Typ: 17, MetaB: []byte{byte(fsp)}, Kind: "timestamp2", P1: fsp}
}
func colDateTime2(fsp int) Col {
	return Col{Typ: 18, MetaB: []byte{byte(fsp)}, Kind: "datetime2", P1: fsp}
}
func colTime2(fsp int) Col { return Col{Typ: 19, MetaB: []byte{byte(fsp)}, Kind: "time2", P1: fsp} }
func colDecimal(p, s int) Col {
	return Col{Typ: 246, MetaB: []byte{byte(p), byte(s)}, Kind: "decimal", P1: p, P2: s}
}
func colVarchar(max int) Col {
	return Col{Typ: 15, MetaB: []byte{byte(max), byte(max >> 8)}, Kind: "varchar", P1: max}
}

// colChar: CHAR/BINARY with max byte length 0..1023; type STRING (254) with the length's
// bits 8-9 folded into byte 0.
func colChar(max int) Col {
	b0 := byte(254) ^ byte((max&0x300)>>4)
	return Col{Typ: 254, MetaB: []byte{b0, byte(max & 0xff)}, Kind: "char", P1: max}
}
func colEnum(pack int) Col { return Col{Typ: 254, MetaB: []byte{247, byte(pack)}, Kind: "enum", P1: pack} }
func colSet(pack int) Col  { return Col{Typ: 254, MetaB: []byte{248, byte(pack)}, Kind: "set", P1: pack} }
func colBit(n int) Col {
	return Col{Typ: 16, MetaB: []byte{byte(n % 8), byte(n / 8)}, Kind: "bit", P1: n}
}
func colBlob(lenBytes int) Col {
	return Col{Typ: 252, MetaB: []byte{byte(lenBytes)}, Kind: "blob", P1: lenBytes}
}
func colGeometry(lenBytes int) Col {
	return Col{Typ: 255, MetaB: []byte{byte(lenBytes)}, Kind: "geometry", P1: lenBytes}
}

// ---- raw cell generators ---------------------------------------------------------------

var intBoundaries64 = []uint64{0, 1, 2, 9, 10, 99, 100, 127, 128, 129, 255, 256, 32767, 32768, 65535, 65536,
	8388607, 8388608, 16777215, 16777216, 2147483647, 2147483648, 4294967295, 4294967296,
	999999999, 1000000000, 9223372036854775807, 9223372036854775808, 18446744073709551615,
	18446744073709551614, 0x8000000000000001, 0xffffffff00000000}

func genIntBytes(r *rand.Rand, w int) []byte {
	var v uint64
	switch r.Intn(4) {
	case 0:
		v = intBoundaries64[r.Intn(len(intBoundaries64))]
	case 1:
		v = ^intBoundaries64[r.Intn(len(intBoundaries64))]
	case 2:
		v = -intBoundaries64[r.Intn(len(intBoundaries64))]
	default:
		v = r.Uint64()
	}
	return leN(v, w)
}

func genFloat32(r *rand.Rand) []byte {
	for {
		var bits uint32
		switch r.Intn(6) {
		case 0:
			bits = []uint32{0, 0x80000000, 1, 0x80000001, 0x007fffff, 0x00800000, 0x7f7fffff, 0xff7fffff, 0x3f800000, 0x3eaaaaab}[r.Intn(10)]
		case 1:
			bits = uint32(r.Intn(0x00800000)) | uint32(r.Intn(2))<<31 // subnormals
		default:
			bits = r.Uint32()
		}
		f := math.Float32frombits(bits)
		if !math.IsNaN(float64(f)) && !math.IsInf(float64(f), 0) {
			return le32(bits)
		}
	}
}

func genFloat64(r *rand.Rand) []byte {
	for {
		var bits uint64
		switch r.Intn(6) {
		case 0:
			bits = []uint64{0, 0x8000000000000000, 1, 0x8000000000000001, 0x000fffffffffffff, 0x0010000000000000,
				0x7fefffffffffffff, 0xffefffffffffffff, 0x3ff0000000000000, 0x3fd5555555555555, 0x400921fb54442d18}[r.Intn(11)]
		case 1:
			bits = uint64(r.Int63n(1<<52)) | uint64(r.Intn(2))<<63
		default:
			bits = r.Uint64()
		}
		f := math.Float64frombits(bits)
		if !math.IsNaN(f) && !math.IsInf(f, 0) {
			return le64(bits)
		}
	}
}

func pick(r *rand.Rand, xs ...int) int { return xs[r.Intn(len(xs))] }

func genDate(r *rand.Rand) (y, m, d int) {
	switch r.Intn(5) {
	case 0:
		return 0, 0, 0
	case 1:
		return pick(r, 0, 1, 1000, 1969, 1970, 2038, 9999), pick(r, 0, 1, 12), pick(r, 0, 1, 28, 31)
	}
	return r.Intn(10000), r.Intn(13), r.Intn(32)
}

func genHMS(r *rand.Rand) (h, m, s int) {
	if r.Intn(4) == 0 {
		return pick(r, 0, 23), pick(r, 0, 59), pick(r, 0, 59)
	}
	return r.Intn(24), r.Intn(60), r.Intn(60)
}

// fracBytes: fractional seconds for fsp digits; value frac has exactly fsp digits.
// fsp 1-2: 1 byte (1/100 s), 3-4: 2 bytes BE (1/10000 s), 5-6: 3 bytes BE (us).
func fracStorage(fsp int) (nbytes int, unit int) {
	switch fsp {
	case 1, 2:
		return 1, 100
	case 3, 4:
		return 2, 10000
	case 5, 6:
		return 3, 1000000
	}
	return 0, 1
}

func pow10(n int) int {
	p := 1
	for i := 0; i < n; i++ {
		p *= 10
	}
	return p
}

// genFrac returns a fraction as stored (in storage units) for the given fsp: a value with
// fsp significant digits scaled to the storage unit (odd fsp are stored multiplied by 10).
func genFrac(r *rand.Rand, fsp int) int {
	if fsp == 0 {
		return 0
	}
	_, unit := fracStorage(fsp)
	digits := pow10(fsp)
	var f int
	switch r.Intn(4) {
	case 0:
		f = 0
	case 1:
		f = digits - 1
	case 2:
		f = 1
	default:
		f = r.Intn(digits)
	}
	return f * (unit / digits)
}

func beN(v uint64, n int) []byte {
	b := make([]byte, n)
	for i := 0; i < n; i++ {
		b[n-1-i] = byte(v >> (8 * uint(i)))
	}
	return b
}

// genDecimalDigits returns intg+scale decimal digits for the chosen class.
func genDecimalDigits(r *rand.Rand, p, s int, class int) []byte {
	d := make([]byte, p)
	switch class {
	case 0: // all zeros
	case 1: // single low digit
		d[p-1] = byte(1 + r.Intn(9))
	case 2: // all nines
		for i := range d {
			d[i] = 9
		}
	case 3: // each 9-digit group zero / non-zero, randomly
		for i := 0; i < p; i += 9 {
			if r.Intn(2) == 0 {
				for j := i; j < i+9 && j < p; j++ {
					d[j] = byte(r.Intn(10))
				}
			}
		}
	case 4: // small integer part only
		if p-s > 0 {
			d[p-s-1] = byte(1 + r.Intn(9))
			if p-s > 1 && r.Intn(2) == 0 {
				d[p-s-2] = byte(r.Intn(10))
			}
		}
	case 7: // the 9-digit groups of the wire encoding (aligned at the decimal point), each all-zero or not, most significant digit set
		intg := p - s
		bounds := []int{0}
		if intg%9 != 0 {
			bounds = append(bounds, intg%9)
		}
		for b := bounds[len(bounds)-1] + 9; b <= intg; b += 9 {
			bounds = append(bounds, b)
		}
		if bounds[len(bounds)-1] != intg {
			bounds = append(bounds, intg)
		}
		for b := intg + 9; b < p; b += 9 {
			bounds = append(bounds, b)
		}
		if bounds[len(bounds)-1] != p {
			bounds = append(bounds, p)
		}
		for k := 0; k+1 < len(bounds); k++ {
			if r.Intn(2) == 0 {
				for j := bounds[k]; j < bounds[k+1]; j++ {
					d[j] = byte(r.Intn(10))
				}
			}
		}
		d[0] = byte(1 + r.Intn(9))
	default:
		for i := range d {
			d[i] = byte(r.Intn(10))
		}
	}
	return d
}

func allZero(d []byte) bool {
	for _, x := range d {
		if x != 0 {
			return false
		}
	}
	return true
}

var dig2bytesW = []int{0, 1, 1, 2, 2, 3, 3, 4, 4, 4}

// decimalEncode is decimal2bin (A.6): digits has p entries (intg = p-s integer digits, then s fraction digits).
func decimalEncode(p, s int, neg bool, digits []byte) []byte {
	intg := p - s
	var out []byte
	group := func(ds []byte, nbytes int) {
		v := uint64(0)
		for _, d := range ds {
			v = v*10 + uint64(d)
		}
		out = append(out, beN(v, nbytes)...)
	}
	lead := intg % 9
	pos := 0
	if lead > 0 {
		group(digits[0:lead], dig2bytesW[lead])
		pos = lead
	}
	for ; pos+9 <= intg; pos += 9 {
		group(digits[pos:pos+9], 4)
	}
	fpos := intg
	for ; fpos+9 <= p; fpos += 9 {
		group(digits[fpos:fpos+9], 4)
	}
	if rem := p - fpos; rem > 0 {
		group(digits[fpos:p], dig2bytesW[rem])
	}
	if neg {
		for i := range out {
			out[i] ^= 0xff
		}
	}
	out[0] ^= 0x80
	return out
}

func randBytes(r *rand.Rand, n int) []byte {
	b := make([]byte, n)
	switch r.Intn(4) {
	case 0:
		for i := range b {
			b[i] = byte('a' + r.Intn(26))
		}
	case 1:
		for i := range b {
			b[i] = byte(r.Intn(256))
		}
	case 2:
		for i := range b {
			b[i] = []byte{0, 0xff, '\'', '"', '\\', '\n', 0x80, 0xe4}[r.Intn(8)]
		}
	default:
		s := []byte("h\xc3\xa9llo w\xc3\xb6rld \xe4\xb8\xad\xe6\x96\x87 ")
		for i := range b {
			b[i] = s[i%len(s)]
		}
	}
	return b
}

func genLen(r *rand.Rand, max int) int {
	cands := []int{0, 1, 2, 250, 251, 255, 256, 257, max - 1, max}
	for tries := 0; tries < 20; tries++ {
		var l int
		if r.Intn(3) == 0 {
			l = cands[r.Intn(len(cands))]
		} else if r.Intn(2) == 0 {
			l = r.Intn(20)
		} else {
			l = r.Intn(max + 1)
		}
		if l >= 0 && l <= max {
			return l
		}
	}
	return 0
}

// genCell returns the raw row-image encoding of a random valid value of column c.
// maxBlob bounds blob/varchar payloads to keep traces small.
func genCell(r *rand.Rand, c *Col, maxPayload int) []byte {
	switch c.Kind {
	case "tiny":
		return genIntBytes(r, 1)
	case "short":
		return genIntBytes(r, 2)
	case "int24":
		return genIntBytes(r, 3)
	case "long":
		return genIntBytes(r, 4)
	case "longlong":
		return genIntBytes(r, 8)
	case "float":
		return genFloat32(r)
	case "double":
		return genFloat64(r)
	case "year":
		return []byte{byte(pick(r, 0, 1, 70, 100, 255, r.Intn(256)))}
	case "date":
		y, m, d := genDate(r)
		return leN(uint64(d+m*32+y*512), 3)
	case "time":
		h, m, s := r.Intn(839), r.Intn(60), r.Intn(60)
		if r.Intn(4) == 0 {
			h, m, s = pick(r, 0, 1, 838), pick(r, 0, 59), pick(r, 0, 1, 59)
		}
		v := int64(h*10000 + m*100 + s)
		if r.Intn(2) == 0 {
			v = -v
		}
		return leN(uint64(v), 3)
	case "datetime":
		y, mo, d := genDate(r)
		h, mi, s := genHMS(r)
		v := uint64(y)*10000000000 + uint64(mo)*100000000 + uint64(d)*1000000 + uint64(h)*10000 + uint64(mi)*100 + uint64(s)
		return le64(v)
	case "timestamp":
		return le32(genInstant(r))
	case "timestamp2":
		b := beN(uint64(genInstant(r)), 4)
		nb, _ := fracStorage(c.P1)
		return append(b, beN(uint64(genFrac(r, c.P1)), nb)...)
	case "datetime2":
		y, mo, d := genDate(r)
		h, mi, s := genHMS(r)
		v := uint64(0x8000000000) + (uint64(y*13+mo)<<22 | uint64(d)<<17 | uint64(h)<<12 | uint64(mi)<<6 | uint64(s))
		b := beN(v, 5)
		nb, _ := fracStorage(c.P1)
		return append(b, beN(uint64(genFrac(r, c.P1)), nb)...)
	case "time2":
		h, m, s := r.Intn(839), r.Intn(60), r.Intn(60)
		if r.Intn(4) == 0 {
			h, m, s = pick(r, 0, 1, 838), pick(r, 0, 59), pick(r, 0, 1, 59)
		}
		frac := genFrac(r, c.P1)
		neg := r.Intn(2) == 0
		return time2Encode(h, m, s, frac, c.P1, neg)
	case "decimal":
		digits := genDecimalDigits(r, c.P1, c.P2, r.Intn(9))
		neg := r.Intn(2) == 0
		if allZero(digits) {
			neg = false // there is no negative zero
		}
		return decimalEncode(c.P1, c.P2, neg, digits)
	case "varchar":
		max := c.P1
		lim := max
		if lim > maxPayload {
			lim = maxPayload
		}
		l := genLen(r, lim)
		if max > 255 {
			return append(leN(uint64(l), 2), randBytes(r, l)...)
		}
		return append([]byte{byte(l)}, randBytes(r, l)...)
	case "char":
		max := c.P1
		lim := max
		if lim > maxPayload {
			lim = maxPayload
		}
		l := genLen(r, lim)
		if max > 255 {
			return append(leN(uint64(l), 2), randBytes(r, l)...)
		}
		return append([]byte{byte(l)}, randBytes(r, l)...)
	case "enum":
		if c.P1 == 1 {
			return []byte{byte(pick(r, 0, 1, 255, r.Intn(256)))}
		}
		return leN(uint64(pick(r, 0, 1, 255, 256, 65535, r.Intn(65536))), 2)
	case "set":
		return genIntBytes(r, c.P1)
	case "bit":
		n := c.P1
		nb := (n + 7) / 8
		b := make([]byte, nb)
		for i := range b {
			b[i] = byte(r.Intn(256))
		}
		if n%8 != 0 {
			b[0] &= byte(1<<uint(n%8)) - 1
		}
		return b
	case "blob", "geometry":
		lb := c.P1
		max := 1<<(8*uint(lb)) - 1
		if lb == 4 || max > maxPayload {
			max = maxPayload
		}
		l := genLen(r, max)
		return append(leN(uint64(l), lb), randBytes(r, l)...)
	}
	panic("genCell: unknown kind " + c.Kind)
}

func genInstant(r *rand.Rand) uint32 {
	switch r.Intn(5) {
	case 0:
		return 0
	case 1:
		return []uint32{1, 59, 60, 86399, 86400, 946684800, 1407805592, 2147483647, 2147483648, 4294967295,
			1679794200, 1698543000, 1143340200}[r.Intn(13)]
	}
	return r.Uint32()
}

// time2Encode: 3 bytes BE = 0x800000 +/- (h<<12|m<<6|s), then the fraction; for negative
// values the whole (int part, fraction) number is negated as one two's complement quantity.
func time2Encode(h, m, s, frac, fsp int, neg bool) []byte {
	nb, _ := fracStorage(fsp)
	ip := int64(h<<12 | m<<6 | s)
	whole := ip<<(8*uint(nb)) | int64(frac)
	if neg {
		whole = -whole
	}
	whole += int64(0x800000) << (8 * uint(nb))
	return beN(uint64(whole), 3+nb)
}

// randomCol draws a column from every supported kind with its full metadata domain.
func randomCol(r *rand.Rand) Col {
	switch r.Intn(26) {
	case 0:
		return colInt("tiny", r.Intn(2) == 0)
	case 1:
		return colInt("short", r.Intn(2) == 0)
	case 2:
		return colInt("int24", r.Intn(2) == 0)
	case 3:
		return colInt("long", r.Intn(2) == 0)
	case 4:
		return colInt("longlong", r.Intn(2) == 0)
	case 5:
		return colFloat()
	case 6:
		return colDouble()
	case 7:
		return colYear()
	case 8:
		return colDate()
	case 9:
		return colTimeOld()
	case 10:
		return colDateTimeOld()
	case 11:
		return colTimestampOld()
	case 12:
		return colTimestamp2(r.Intn(7))
	case 13:
		return colDateTime2(r.Intn(7))
	case 14:
		return colTime2(r.Intn(7))
	case 15, 16:
		p := 1 + r.Intn(65)
		maxS := p
		if maxS > 30 {
			maxS = 30
		}
		return colDecimal(p, r.Intn(maxS+1))
	case 17, 18:
		return colVarchar(pick(r, 0, 1, 10, 255, 256, 1000, 65535, r.Intn(65536)))
	case 19, 20:
		return colChar(pick(r, 0, 1, 10, 255, 256, 767, 768, 1023, r.Intn(1024)))
	case 21:
		return colEnum(1 + r.Intn(2))
	case 22:
		return colSet(1 + r.Intn(8))
	case 23:
		return colBit(1 + r.Intn(64))
	case 24:
		return colBlob(1 + r.Intn(4))
	default:
		return colGeometry(1 + r.Intn(4))
	}
}

// colShapes lists one column per branch of a row decoder: every integer width and signedness, every fraction length of
// the temporal types, DECIMALs with every number of leftover digits (0..8) on either side of the point together with
// none, one and several full groups of nine, both length widths of the string types, every pack length.
func colShapes() []Col {
	var out []Col
	for _, k := range []string{"tiny", "short", "int24", "long", "longlong"} {
		out = append(out, colInt(k, false), colInt(k, true))
	}
	out = append(out, colFloat(), colDouble(), colYear(), colDate(), colTimeOld(), colDateTimeOld(), colTimestampOld())
	for fsp := 0; fsp <= 6; fsp++ {
		out = append(out, colTimestamp2(fsp), colDateTime2(fsp), colTime2(fsp))
	}
	for _, s := range []int{0, 1, 2, 3, 4, 5, 6, 7, 8, 9, 10, 18, 20, 27, 30} {
		for _, intg := range []int{0, 1, 5, 9, 10, 18, 35} {
			if p := intg + s; p >= 1 && p <= 65 {
				out = append(out, colDecimal(p, s))
			}
		}
	}
	for _, m := range []int{0, 1, 255, 256, 65535} {
		out = append(out, colVarchar(m))
	}
	for _, m := range []int{0, 1, 255, 256, 767, 768, 1023} {
		out = append(out, colChar(m))
	}
	out = append(out, colEnum(1), colEnum(2))
	for n := 1; n <= 8; n++ {
		out = append(out, colSet(n))
	}
	for _, n := range []int{1, 7, 8, 9, 16, 17, 33, 63, 64} {
		out = append(out, colBit(n))
	}
	for n := 1; n <= 4; n++ {
		out = append(out, colBlob(n), colGeometry(n))
	}
	return out
}

var _ = binary.LittleEndian
