package gobinlog_test

// Codec family: pure functions of package replication called directly. Every call is recorded as one
// `case` line: abstract input, input bytes, observed output (projected). TLC (Trace_Codec.tla) judges.

import (
	"fmt"
	"math/rand"
	"os"
	"reflect"
	"strconv"
	"strings"
	"time"

	"github.com/Breeze0806/gobinlog/replication"
)

var caseID int

func emitCase(e *Env, m M) {
	caseID++
	if only := os.Getenv("VERIF_ONLY"); only != "" && only != strconv.Itoa(caseID) {
		return
	}
	m["ev"] = "case"
	m["id"] = caseID
	// decimal texts also as byte arrays (TLC cannot take a JSON string apart)
	for _, k := range []string{"ts", "np", "sid"} {
		if v, ok := m[k].(string); ok {
			m[k+"t"] = B(v)
		}
	}
	e.Rec.Emit(m)
}

// realFormat decodes the harness writer's FORMAT_DESCRIPTION with the real code.
func realFormat(cfg WireCfg) replication.BinlogFormat {
	l := &Log{Cfg: cfg}
	e := &Ev{K: "fde", TS: 1}
	l.layoutEv(e, 4)
	f, err := replication.NewMysql56BinlogEvent(e.Bytes).Format()
	if err != nil {
		panic(err)
	}
	return f
}

// realMeta obtains the library's per-column metadata the way the streamer does: by decoding a TABLE_MAP
// event that announces the columns.
func realMeta(cfg WireCfg, f replication.BinlogFormat, cols []Col) (*replication.TableMap, error) {
	l := &Log{Cfg: cfg}
	t := &Table{ID: 9, DB: "d", Name: "t", Cols: cols}
	e := &Ev{K: "tablemap", TS: 1, Tbl: t}
	l.layoutEv(e, 4)
	ev := replication.NewMysql56BinlogEvent(e.Bytes)
	ev, _, _ = ev.StripChecksum(f)
	return ev.TableMap(f)
}

type recovered struct {
	panicked bool
	msg      string
}

func safely(fn func()) (r recovered) {
	defer func() {
		if x := recover(); x != nil {
			r.panicked = true
			r.msg = fmt.Sprint(x)
		}
	}()
	fn()
	return
}

var codecCfg = WireCfg{Checksum: false, RowsV2: true, TidW: 6, Gtid: false, NTypes: 38, SrvVer: "5.7.30-log", ServerID: 1}

// cellCase calls CellBytes on prefix+raw+suffix at pos=len(prefix) and records the result.
func cellCase(e *Env, f replication.BinlogFormat, c Col, raw []byte, cls string) {
	tm, err := realMeta(codecCfg, f, []Col{c})
	if err != nil {
		emitCase(e, M{"fn": "cell", "cls": cls, "typ": int(c.Typ), "metab": B(c.MetaB), "uns": c.Uns, "raw": B(raw), "tz": 0, "zone": "",
			"obs": M{"err": true, "panic": false, "data": B(nil), "hasdata": false, "len": 0, "fbits": B(nil), "msg": B(err.Error())}})
		return
	}
	pre := e.R.Intn(3)
	suf := e.R.Intn(3)
	data := append(append(randBytes(e.R, pre), raw...), randBytes(e.R, suf)...)
	var out []byte
	var n int
	var cerr error
	rec := safely(func() { out, n, cerr = replication.CellBytes(data, pre, tm.Types[0], tm.Metadata[0], c.Uns) })
	obs := M{"err": cerr != nil, "panic": rec.panicked, "data": B(append([]byte{}, out...)), "hasdata": out != nil, "len": n,
		"fbits": B(floatBits(c.Typ, out)), "msg": B(rec.msg)}
	emitCase(e, M{"fn": "cell", "cls": cls, "typ": int(c.Typ), "metab": B(c.MetaB), "uns": c.Uns, "raw": B(raw),
		"tz": zoneOffsetFor(c.Typ, raw), "zone": os.Getenv("VERIF_ZONE"), "obs": obs})
}

// batchCase decodes the n consecutive w-byte little-endian raw values from..from+n-1 of a fixed-width column and
// records the texts as one line (exhaustive small domains would otherwise need one line per value).
func batchCase(e *Env, f replication.BinlogFormat, fn string, c Col, w int, from, n int) {
	tm, err := realMeta(codecCfg, f, []Col{c})
	if err != nil {
		panic(err)
	}
	texts := make([]string, n)
	for i := 0; i < n; i++ {
		raw := leN(uint64(from+i), w)
		var out []byte
		var l int
		var cerr error
		rec := safely(func() { out, l, cerr = replication.CellBytes(raw, 0, tm.Types[0], tm.Metadata[0], c.Uns) })
		switch {
		case rec.panicked:
			texts[i] = "!panic"
		case cerr != nil:
			texts[i] = "!error"
		case l != w:
			texts[i] = "!length"
		case out == nil:
			texts[i] = "!nil"
		default:
			texts[i] = string(out)
		}
	}
	emitCase(e, M{"fn": fn, "cls": fn + "-w" + itoa(w), "typ": int(c.Typ), "metab": B(c.MetaB), "uns": c.Uns, "w": w, "from": from, "texts": texts})
}

// batches runs fn over the whole w-byte domain (thorough) or over `quick` random chunks of it.
func batches(e *Env, f replication.BinlogFormat, fn string, c Col, w int, quick int) {
	const chunk = 4096
	total := 1 << (8 * uint(w))
	if total <= chunk {
		batchCase(e, f, fn, c, w, 0, total)
		return
	}
	nchunks := total / chunk
	if e.Thorough() || quick >= nchunks {
		for k := 0; k < nchunks; k++ {
			batchCase(e, f, fn, c, w, k*chunk, chunk)
		}
		return
	}
	// first, last, the sign boundary, and random chunks
	ks := map[int]bool{0: true, nchunks - 1: true, nchunks / 2: true, nchunks/2 - 1: true}
	for len(ks) < quick {
		ks[e.R.Intn(nchunks)] = true
	}
	for k := 0; k < nchunks; k++ {
		if ks[k] {
			batchCase(e, f, fn, c, w, k*chunk, chunk)
		}
	}
}

// pairCase decodes two cells of the same column back to back and records both results AFTER the second call: a value
// handed out by CellBytes must not be changed by a later call (shared caches / buffers).
func cellPairCase(e2 *Env, f replication.BinlogFormat, c Col, raw1, raw2 []byte, cls string) {
	tm, err := realMeta(codecCfg, f, []Col{c})
	if err != nil {
		panic(err)
	}
	// the abstract inputs are the bytes as they were BEFORE the calls (a decoder must not alter what it reads)
	in1, in2 := append([]byte{}, raw1...), append([]byte{}, raw2...)
	var o1, o2 []byte
	var n1, n2 int
	var e1, e3 error
	rec := safely(func() {
		o1, n1, e1 = replication.CellBytes(raw1, 0, tm.Types[0], tm.Metadata[0], c.Uns)
		o2, n2, e3 = replication.CellBytes(raw2, 0, tm.Types[0], tm.Metadata[0], c.Uns)
	})
	mk := func(o []byte, n int, err error) M {
		return M{"err": err != nil, "panic": rec.panicked, "data": B(append([]byte{}, o...)), "hasdata": o != nil, "len": n,
			"fbits": B(floatBits(c.Typ, o)), "msg": B(rec.msg)}
	}
	emitCase(e2, M{"fn": "cellpair", "cls": cls, "typ": int(c.Typ), "metab": B(c.MetaB), "uns": c.Uns,
		"raw": B(in1), "raw2": B(in2), "tz": zoneOffsetFor(c.Typ, in1), "tz2": zoneOffsetFor(c.Typ, in2), "zone": os.Getenv("VERIF_ZONE"),
		"obs": mk(o1, n1, e1), "obs2": mk(o2, n2, e3)})
}

func init() {
	modes["c10"] = modeC10
	modes["c11"] = modeC11
	modes["c12"] = modeC12
	modes["c13"] = modeC13
}

// modeC10: integers (exhaustive 8/16-bit, both signedness; 24-bit sampled or exhaustive by part), floats, YEAR, BIT, ENUM, SET.
func modeC10(e *Env) {
	f := realFormat(codecCfg)
	for _, uns := range []bool{false, true} {
		// exhaustive domains as batch lines: 8 and 16 bit always, 24 bit in the thorough tier (sampled chunks in quick)
		batches(e, f, "intbatch", colInt("tiny", uns), 1, 1)
		batches(e, f, "intbatch", colInt("short", uns), 2, 16)
		batches(e, f, "intbatch", colInt("int24", uns), 3, 24)
		for v := 0; v < 256; v++ {
			cellCase(e, f, colInt("tiny", uns), []byte{byte(v)}, "tiny-all")
		}
		step := e.N(7, 1)
		for v := e.R.Intn(step); v < 65536; v += step {
			cellCase(e, f, colInt("short", uns), leN(uint64(v), 2), "short")
		}
		// 24-bit: every (high byte, low byte) combination with a random middle byte; thorough adds random full values
		for hi := 0; hi < 256; hi++ {
			for _, lo := range []int{0, 1, 127, 128, 255, e.R.Intn(256)} {
				cellCase(e, f, colInt("int24", uns), []byte{byte(lo), byte(e.R.Intn(256)), byte(hi)}, "int24")
			}
		}
		n := e.N(300, 20000)
		for i := 0; i < n; i++ {
			cellCase(e, f, colInt("int24", uns), genIntBytes(e.R, 3), "int24")
			cellCase(e, f, colInt("long", uns), genIntBytes(e.R, 4), "long")
			cellCase(e, f, colInt("longlong", uns), genIntBytes(e.R, 8), "longlong")
		}
		// every byte-carry boundary and power of two +- 1 of the 32- and 64-bit domains
		for w, kind := range map[int]string{4: "long", 8: "longlong"} {
			for b := 0; b < 8*w; b++ {
				for _, d := range []int64{-1, 0, 1} {
					v := uint64(int64(uint64(1)<<uint(b)) + d)
					cellCase(e, f, colInt(kind, uns), leN(v, w), kind+"-pow2")
					cellCase(e, f, colInt(kind, uns), leN(-v, w), kind+"-pow2")
				}
			}
		}
	}
	for v := 0; v < 256; v++ {
		cellCase(e, f, colYear(), []byte{byte(v)}, "year-all")
	}
	n := e.N(400, 30000)
	for i := 0; i < n; i++ {
		cellCase(e, f, colFloat(), genFloat32(e.R), "float")
		cellCase(e, f, colDouble(), genFloat64(e.R), "double")
	}
	for bits := 1; bits <= 64; bits++ {
		for r := 0; r < e.N(2, 20); r++ {
			c := colBit(bits)
			cellCase(e, f, c, genCell(e.R, &c, 0), "bit")
		}
	}
	for _, pk := range []int{1, 2} {
		c := colEnum(pk)
		for r := 0; r < e.N(20, 600); r++ {
			cellCase(e, f, c, genCell(e.R, &c, 0), "enum")
		}
	}
	for pk := 1; pk <= 8; pk++ {
		c := colSet(pk)
		for r := 0; r < e.N(10, 300); r++ {
			cellCase(e, f, c, genCell(e.R, &c, 0), "set")
		}
	}
}

// modeC11: all valid (p,s) x digit classes x sign.
func modeC11(e *Env) {
	f := realFormat(codecCfg)
	for p := 1; p <= 65; p++ {
		maxS := p
		if maxS > 30 {
			maxS = 30
		}
		for s := 0; s <= maxS; s++ {
			c := colDecimal(p, s)
			for _, class := range []int{0, 1, 2, 3, 4, 5, 7} {
				for _, neg := range []bool{false, true} {
					d := genDecimalDigits(e.R, p, s, class)
					if allZero(d) && neg {
						continue
					}
					if e.Tier == "quick" && class >= 3 && neg && (p+s)%3 != 0 {
						continue
					}
					cellCase(e, f, c, decimalEncode(p, s, neg, d), "decimal-class"+itoa(class))
				}
			}
			for r := 0; r < e.N(0, 40); r++ {
				d := genDecimalDigits(e.R, p, s, 6)
				neg := e.R.Intn(2) == 0 && !allZero(d)
				cellCase(e, f, c, decimalEncode(p, s, neg, d), "decimal-random")
			}
			// the same cell decoded twice from the same bytes: decoding must not consume or alter its input
			d := genDecimalDigits(e.R, p, s, 6)
			raw := decimalEncode(p, s, (p+s)%2 == 1 && !allZero(d), d)
			cellPairCase(e, f, c, raw, raw, "decimal-twice")
		}
	}
}

// modeC12: temporal types. The process zone is set by the driver (TZ); the offset in force is logged per cell.
func modeC12(e *Env) {
	f := realFormat(codecCfg)
	// the whole 3-byte domains of old DATE and old TIME as batch lines (the monitor judges the raw values that
	// denote valid values): exhaustive in the thorough tier, sampled chunks in quick
	if os.Getenv("VERIF_ZONE") == "UTC" || os.Getenv("VERIF_ZONE") == "" {
		batches(e, f, "datebatch", colDate(), 3, 40)
		batches(e, f, "timebatch", colTimeOld(), 3, 40)
	}
	step := 997
	for v := e.R.Intn(step); v < 1<<24; v += step {
		// DATE: day 0..31, month 0..12, year 0..9999
		m, y := (v>>5)&15, v>>9
		if m <= 12 && y <= 9999 {
			cellCase(e, f, colDate(), leN(uint64(v), 3), "date")
		}
	}
	// old TIME: every valid +/-HHMMSS up to 838:59:59 (thorough), stratified in quick
	for h := 0; h <= 838; h++ {
		for _, mi := range []int{0, 1, 59, e.R.Intn(60)} {
			for _, s := range []int{0, 1, 59, e.R.Intn(60)} {
				if e.Tier == "quick" && h%7 != 0 && h > 30 && h < 830 {
					continue
				}
				v := int64(h*10000 + mi*100 + s)
				cellCase(e, f, colTimeOld(), leN(uint64(v), 3), "time-old")
				cellCase(e, f, colTimeOld(), leN(uint64(-v), 3), "time-old-neg")
			}
		}
	}
	n := e.N(150, 8000)
	for i := 0; i < n; i++ {
		for _, c := range []Col{colDateTimeOld(), colTimestampOld(), colDate(), colTimeOld()} {
			c := c
			cellCase(e, f, c, genCell(e.R, &c, 0), c.Kind)
		}
		for fsp := 0; fsp <= 6; fsp++ {
			for _, c := range []Col{colTimestamp2(fsp), colDateTime2(fsp), colTime2(fsp)} {
				c := c
				cellCase(e, f, c, genCell(e.R, &c, 0), c.Kind+"-fsp"+itoa(fsp))
			}
		}
	}
	// zero dates / zero timestamp / hour boundaries, all fsp
	for fsp := 0; fsp <= 6; fsp++ {
		nb, _ := fracStorage(fsp)
		cellCase(e, f, colTimestamp2(fsp), make([]byte, 4+nb), "timestamp2-zero")
		cellCase(e, f, colDateTime2(fsp), append(beN(0x8000000000, 5), make([]byte, nb)...), "datetime2-zero")
		for _, neg := range []bool{false, true} {
			for _, hms := range [][3]int{{0, 0, 0}, {0, 0, 1}, {838, 59, 59}, {1, 0, 0}, {23, 59, 59}, {100, 0, 0}} {
				if neg && hms == [3]int{0, 0, 0} {
					continue
				}
				cellCase(e, f, colTime2(fsp), time2Encode(hms[0], hms[1], hms[2], genFrac(e.R, fsp), fsp, neg), "time2-boundary")
			}
		}
	}
	cellCase(e, f, colTimestampOld(), []byte{0, 0, 0, 0}, "timestamp-zero")
	// the first day of the epoch: west of Greenwich these instants are still in 1969 local time
	for _, v := range []uint64{1, 2, 59, 3599, 3600, 3601, 17999, 18000, 18001, 28799, 28800, 36000, 43199, 43200, 86399, 86400, 86401} {
		fsp := e.R.Intn(7)
		nb, _ := fracStorage(fsp)
		cellCase(e, f, colTimestampOld(), leN(v, 4), "timestamp-epoch-day")
		cellCase(e, f, colTimestamp2(fsp), append(beN(v, 4), beN(uint64(genFrac(e.R, fsp)), nb)...), "timestamp2-epoch-day")
	}
	// pairs decoded back to back: same second / same day, different fractions (what a "last value" cache would share)
	for i := 0; i < e.N(120, 3000); i++ {
		fsp := 1 + e.R.Intn(6)
		for _, c := range []Col{colTimestamp2(fsp), colDateTime2(fsp), colTime2(fsp)} {
			c := c
			r1 := genCell(e.R, &c, 0)
			r2 := append([]byte{}, r1...)
			nb, _ := fracStorage(fsp)
			copy(r2[len(r2)-nb:], beN(uint64(genFrac(e.R, fsp)), nb))
			if c.Kind == "time2" {
				r2 = genCell(e.R, &c, 0)
			}
			cellPairCase(e, f, c, r1, r2, c.Kind+"-pair")
			cellPairCase(e, f, c, r1, r1, c.Kind+"-pair-same")
		}
		for _, c := range []Col{colTimestampOld(), colDateTimeOld(), colDate(), colTimeOld()} {
			c := c
			cellPairCase(e, f, c, genCell(e.R, &c, 0), genCell(e.R, &c, 0), c.Kind+"-pair")
		}
	}
	// TIMESTAMP pairs on the SAME LOCAL DAY around a change of the zone's clock (what a "current local day" cache would
	// get wrong): one instant before and one after the transition, decoded in both orders; and around local midnight
	for _, tr := range zoneTransitions(e.N(6, 60)) {
		day := time.Unix(tr, 0).In(time.Local)
		midnight := time.Date(day.Year(), day.Month(), day.Day(), 0, 0, 0, 0, time.Local).Unix()
		before := []int64{midnight + 60, tr - 1800, tr - 1}
		after := []int64{tr, tr + 1, tr + 1800, tr + 2*3600 + 7, midnight + 23*3600}
		for _, b := range before {
			for _, a := range after {
				if b < 0 || a < 0 || b >= tr || a < tr {
					continue
				}
				fsp := e.R.Intn(7)
				nb, _ := fracStorage(fsp)
				r1 := append(beN(uint64(b), 4), beN(uint64(genFrac(e.R, fsp)), nb)...)
				r2 := append(beN(uint64(a), 4), beN(uint64(genFrac(e.R, fsp)), nb)...)
				cellPairCase(e, f, colTimestamp2(fsp), r1, r2, "timestamp2-dst-day")
				cellPairCase(e, f, colTimestamp2(fsp), r2, r1, "timestamp2-dst-day")
				cellPairCase(e, f, colTimestampOld(), leN(uint64(b), 4), leN(uint64(a), 4), "timestamp-dst-day")
			}
		}
	}
}

// zoneTransitions returns up to n instants (unix seconds, 1971..2037) at which time.Local changes its UTC offset.
func zoneTransitions(n int) []int64 {
	var out []int64
	off := func(t int64) int { _, o := time.Unix(t, 0).In(time.Local).Zone(); return o }
	for y := 2037; y >= 1971 && len(out) < n; y-- {
		for d := int64(0); d < 366 && len(out) < n; d++ {
			lo := time.Date(y, 1, 1, 0, 0, 0, 0, time.UTC).Unix() + d*86400
			hi := lo + 86400
			if off(lo) == off(hi) {
				continue
			}
			for hi-lo > 1 {
				mid := (lo + hi) / 2
				if off(mid) == off(lo) {
					lo = mid
				} else {
					hi = mid
				}
			}
			out = append(out, hi)
		}
	}
	return out
}

// modeC13: strings / binaries verbatim for every declared length class.
func modeC13(e *Env) {
	f := realFormat(codecCfg)
	payload := func(l int) []byte { return randBytes(e.R, l) }
	lens := func(max int) []int {
		out := []int{0, 1, 255, 256, max}
		for i := 0; i < e.N(1, 4); i++ {
			out = append(out, e.R.Intn(max+1))
		}
		return out
	}
	seen := map[string]bool{}
	try := func(c Col, l int, cls string) {
		if l > c.P1 && (c.Kind == "varchar" || c.Kind == "char") {
			return
		}
		key := fmt.Sprintf("%s/%d/%d", c.Kind, c.P1, l)
		if seen[key] {
			return
		}
		seen[key] = true
		var raw []byte
		switch c.Kind {
		case "varchar", "char":
			if c.P1 > 255 {
				raw = append(leN(uint64(l), 2), payload(l)...)
			} else {
				raw = append([]byte{byte(l)}, payload(l)...)
			}
		default:
			raw = append(leN(uint64(l), c.P1), payload(l)...)
		}
		cellCase(e, f, c, raw, cls)
	}
	charMax := []int{0, 1, 2, 254, 255, 256, 257, 511, 512, 767, 768, 1022, 1023}
	vcMax := []int{0, 1, 254, 255, 256, 257, 1000, 65534, 65535}
	if e.Thorough() {
		charMax = nil
		for m := 0; m <= 1023; m++ {
			charMax = append(charMax, m)
		}
		for i := 0; i < 2000; i++ {
			vcMax = append(vcMax, e.R.Intn(65536))
		}
	} else {
		for i := 0; i < 30; i++ {
			charMax = append(charMax, e.R.Intn(1024))
			vcMax = append(vcMax, e.R.Intn(65536))
		}
	}
	for _, m := range charMax {
		for _, l := range lens(m) {
			try(colChar(m), l, "char")
		}
	}
	for _, m := range vcMax {
		for _, l := range lens(m) {
			try(colVarchar(m), l, "varchar")
		}
	}
	for lb := 1; lb <= 4; lb++ {
		max := 1<<(8*uint(lb)) - 1
		if lb >= 3 {
			max = e.N(70000, 300000)
		}
		for _, l := range append(lens(max), 65535, 65536) {
			if l > max {
				continue
			}
			try(colBlob(lb), l, "blob")
			try(colGeometry(lb), l, "geometry")
		}
	}
	_ = rand.Intn
}

// ---- end-to-end halves of the value properties: the same column kinds through Stream() --------------

func e2eMode(fam string, pickCol func(r *rand.Rand) Col, statePatterns bool) func(*Env) {
	return func(e *Env) {
		cfgs := allCfgs()
		n := e.N(48, 600)
		for i := 0; i < n; i++ {
			cfg := cfgs[i%len(cfgs)]
			cfg.PadOnes = i%3 == 1
			l := &Log{Cfg: cfg}
			ncols := 1 + e.R.Intn(5)
			if i%5 == 4 {
				ncols = 9 + e.R.Intn(12) // wider than one bitmap byte: partial images then have smaller bitmaps than the table
			}
			t := &Table{ID: uint64(200 + i), DB: "dv", Name: "t" + itoa(i)}
			for c := 0; c < ncols; c++ {
				col := pickCol(e.R)
				col.Name = "c" + itoa(c)
				col.Nullable = true
				t.Cols = append(t.Cols, col)
			}
			f := &LogFile{Name: "mysql-bin.000001"}
			l.Files = []*LogFile{f}
			ts := uint32(1600000000)
			nu := 2 + e.R.Intn(3)
			// every third scenario re-declares the table between statements: the same id and name announced again with other
			// column types / metadata (ALTER ... MODIFY; names, count and signedness stay), and the id re-used for another
			// table with its own signedness (ids restart with the master); each rows event is decoded with ITS table map
			variants := []*Table{t}
			if i%3 == 2 {
				t2 := &Table{ID: t.ID, DB: t.DB, Name: t.Name}
				t3 := &Table{ID: t.ID, DB: t.DB, Name: t.Name + "x"}
				for c := 0; c < ncols; c++ {
					c2, c3 := pickCol(e.R), pickCol(e.R)
					c2.Name, c2.Nullable, c2.Uns = t.Cols[c].Name, true, t.Cols[c].Uns
					c3.Name, c3.Nullable = "d"+itoa(c), true
					if c3.Kind == t.Cols[c].Kind {
						c3.Uns = !t.Cols[c].Uns
					}
					t2.Cols = append(t2.Cols, c2)
					t3.Cols = append(t3.Cols, c3)
				}
				variants = []*Table{t, t2, t, t3, t2}
				nu = 4 + e.R.Intn(3)
			}
			for u := 0; u < nu; u++ {
				t := variants[u%len(variants)]
				// every fourth scenario: several rows events under ONE table map (a multi-row statement split over events, or
				// INSERT ... ON DUPLICATE KEY UPDATE under a minimal row image), each with its own kind and presence bitmaps
				nev := 1
				if i%4 == 1 {
					nev = 2 + e.R.Intn(2)
				}
				var evs []*Ev
				for k := 0; k < nev; k++ {
					kind := pickS(e.R, "write", "update", "delete")
					ev := &Ev{K: kind, TS: ts, Tbl: t}
					var pb, pa []bool
					if statePatterns {
						// every column position takes every state over the rows of the event
						pb, pa = make([]bool, ncols), make([]bool, ncols)
						for c := range pb {
							pb[c], pa[c] = e.R.Intn(4) != 0, e.R.Intn(4) != 0
						}
						pb[e.R.Intn(ncols)], pa[e.R.Intn(ncols)] = true, true
					} else {
						pb, pa = genPresent(e.R, ncols), genPresent(e.R, ncols)
					}
					if cfg.PadOnes && ncols > 8 && ncols%8 != 0 && k%2 == 0 {
						// exactly eight columns present and the padding bits of the presence bitmap set: counting the padding as
						// columns would make the NULL bitmap of every row one byte too long
						exactly8 := func() []bool {
							p := make([]bool, ncols)
							for _, c := range e.R.Perm(ncols)[:8] {
								p[c] = true
							}
							return p
						}
						pb, pa = exactly8(), exactly8()
					}
					for rw := 0; rw < 1+e.R.Intn(4); rw++ {
						mk := func(present []bool, used bool) []Cell {
							cells := make([]Cell, ncols)
							for c := range cells {
								switch {
								case !used || !present[c]:
									cells[c] = Cell{St: "absent"}
								case e.R.Intn(4) == 0:
									cells[c] = Cell{St: "null"}
								case statePatterns && e.R.Intn(3) == 0:
									cells[c] = Cell{St: "val", Bytes: emptyValue(&t.Cols[c])}
								default:
									cells[c] = Cell{St: "val", Bytes: genCell(e.R, &t.Cols[c], 60)}
								}
							}
							return cells
						}
						ev.Rows = append(ev.Rows, RowPair{B: mk(pb, kind != "write"), A: mk(pa, kind != "delete")})
					}
					evs = append(evs, ev)
				}
				// half of the scenarios: table maps as a MySQL 8.0 master writes them, with the SIGNEDNESS field appended
				var tail []byte
				if i%2 == 0 {
					tail = mysql8Tail(t)
				}
				if nev == 1 {
					f.Units = append(f.Units, &Unit{U: "autorow", Evs: []*Ev{{K: "tablemap", TS: ts, Tbl: t, Tail: tail}, evs[0]}})
				} else {
					all := []*Ev{{K: "query", TS: ts, Cat: "begin", DB: "dv", SQL: "BEGIN"}, {K: "tablemap", TS: ts, Tbl: t, Tail: tail}}
					all = append(append(all, evs...), &Ev{K: "xid", TS: ts})
					f.Units = append(f.Units, &Unit{U: "txxid", Evs: all})
				}
			}
			l.Layout()
			RunStreamScenario(e.Rec, &StreamScenario{ID: i + 1, Fam: fam, Log: l, Start: l.Boundaries()[0], ServerID: 3,
				Attempts: []AttemptPlan{defaultAttempt()}, Note: "e2e"})
		}
	}
}

// emptyValue is the encoding of the empty string / zero-length value for length-prefixed kinds.
func emptyValue(c *Col) []byte {
	switch c.Kind {
	case "varchar", "char":
		if c.P1 > 255 {
			return []byte{0, 0}
		}
		return []byte{0}
	case "blob", "geometry":
		return make([]byte, c.P1)
	}
	r := rand.New(rand.NewSource(1))
	return genCell(r, c, 0)
}

// schemaChangeScenarios: the signedness of a table's columns changes while the stream runs. The first transaction is decoded
// with what the mapper said when the table was first announced; then the application learns of the change (the mapper's
// answer changes while the handler has that transaction), the ALTER statement passes by - as a DDL the library delivers,
// or hidden behind a leading comment as online schema-change tools log it, which the library ignores like any statement it
// has no kind for - and the table is announced again under a new id: its rows are read as the mapper says NOW.
func schemaChangeScenarios(e *Env, fam string, firstID int) {
	cfgs := allCfgs()
	for i := 0; i < e.N(6, 60); i++ {
		cfg := cfgs[e.R.Intn(len(cfgs))]
		l := &Log{Cfg: cfg}
		ncols := 1 + e.R.Intn(4)
		v1 := &Table{ID: 300, DB: "dv", Name: "tsc"}
		v2 := &Table{ID: 301 + uint64(e.R.Intn(5)), DB: "dv", Name: "tsc"}
		for c := 0; c < ncols; c++ {
			col := colInt(pickS(e.R, "tiny", "short", "int24", "long", "longlong"), e.R.Intn(2) == 0)
			col.Name, col.Nullable = "c"+itoa(c), true
			v1.Cols = append(v1.Cols, col)
			col.Uns = !col.Uns
			v2.Cols = append(v2.Cols, col)
		}
		rowsOf := func(t *Table) *Ev {
			ev := &Ev{K: "write", TS: 1600000000, Tbl: t}
			none := make([]Cell, ncols)
			for c := range none {
				none[c] = Cell{St: "absent"}
			}
			for rw := 0; rw < 2; rw++ {
				img := make([]Cell, ncols)
				for c := range img {
					b := genCell(e.R, &t.Cols[c], 8)
					b[len(b)-1] |= 0x80 // the top bit set: the two readings differ
					img[c] = Cell{St: "val", Bytes: b}
				}
				ev.Rows = append(ev.Rows, RowPair{B: none, A: img})
			}
			return ev
		}
		f := &LogFile{Name: "mysql-bin.000001"}
		l.Files = []*LogFile{f}
		f.Units = append(f.Units, &Unit{U: "autorow", Evs: []*Ev{{K: "tablemap", TS: 1600000000, Tbl: v1}, rowsOf(v1)}})
		alter := "ALTER TABLE tsc MODIFY c0 INT UNSIGNED"
		switch i % 3 {
		case 0:
			f.Units = append(f.Units, &Unit{U: "ddl", Evs: []*Ev{{K: "query", TS: 1600000000, Cat: "ddl", DB: "dv", SQL: alter}}})
		case 1:
			f.Units = append(f.Units, &Unit{U: "ign", Evs: []*Ev{{K: "query", TS: 1600000000, Cat: "unknown", DB: "dv", SQL: "/* online-ddl */ " + alter}}})
		}
		f.Units = append(f.Units, &Unit{U: "autorow", Evs: []*Ev{{K: "tablemap", TS: 1600000000, Tbl: v2}, rowsOf(v2)}})
		f.Units = append(f.Units, &Unit{U: "autorow", Evs: []*Ev{{K: "tablemap", TS: 1600000000, Tbl: v2}, rowsOf(v2)}})
		l.Layout()
		RunStreamScenario(e.Rec, &StreamScenario{ID: firstID + i, Fam: fam, Log: l, Start: l.Boundaries()[0], ServerID: 3,
			Attempts: []AttemptPlan{defaultAttempt()}, Note: "schema-change", MapperTables: map[string]*Table{"dv.tsc": v1},
			MapperAfter: map[int]map[string]*Table{0: {"dv.tsc": v2}}})
	}
}

func init() {
	c10e2e := e2eMode("c10", func(r *rand.Rand) Col {
		switch r.Intn(10) {
		case 0:
			return colFloat()
		case 1:
			return colDouble()
		case 2:
			return colYear()
		case 3:
			return colBit(1 + r.Intn(64))
		case 4:
			return colEnum(1 + r.Intn(2))
		case 5:
			return colSet(1 + r.Intn(8))
		}
		return colInt(pickS(r, "tiny", "short", "int24", "long", "longlong"), r.Intn(2) == 0)
	}, false)
	modes["c10s"] = func(e *Env) {
		c10e2e(e)
		schemaChangeScenarios(e, "c10", 10001)
	}
	c11Boundary := [][2]int{{65, 0}, {65, 30}, {64, 0}, {65, 1}, {1, 0}, {1, 1}, {30, 30}, {9, 0}, {10, 0}, {9, 9}, {10, 9}, {18, 0}, {18, 9},
		{19, 9}, {19, 10}, {27, 9}, {28, 10}, {36, 18}, {38, 30}, {56, 0}, {57, 1}, {63, 30}, {2, 1}, {45, 9}}
	c11Calls := 0
	modes["c11s"] = e2eMode("c11", func(r *rand.Rand) Col {
		// the boundary (precision, scale) pairs first, then random ones
		c11Calls++
		if c11Calls <= 2*len(c11Boundary) {
			b := c11Boundary[(c11Calls-1)%len(c11Boundary)]
			return colDecimal(b[0], b[1])
		}
		p := 1 + r.Intn(65)
		ms := p
		if ms > 30 {
			ms = 30
		}
		return colDecimal(p, r.Intn(ms+1))
	}, false)
	modes["c12s"] = e2eMode("c12", func(r *rand.Rand) Col {
		switch r.Intn(7) {
		case 0:
			return colDate()
		case 1:
			return colTimeOld()
		case 2:
			return colDateTimeOld()
		case 3:
			return colTimestampOld()
		case 4:
			return colTimestamp2(r.Intn(7))
		case 5:
			return colDateTime2(r.Intn(7))
		}
		return colTime2(r.Intn(7))
	}, false)
	c13e2e := e2eMode("c13", func(r *rand.Rand) Col {
		switch r.Intn(4) {
		case 0:
			return colVarchar(pick(r, 0, 1, 255, 256, 65535, r.Intn(65536)))
		case 1:
			return colChar(pick(r, 0, 1, 255, 256, 1023, r.Intn(1024)))
		case 2:
			return colBlob(1 + r.Intn(4))
		}
		return colGeometry(1 + r.Intn(4))
	}, true)
	modes["c13s"] = func(e *Env) {
		c13e2e(e)
		// streams whose last rows event ends with an empty value of every length-prefixed kind (its length prefix is the last
		// thing in the event), with and without checksums
		lastCols := []Col{colBlob(1), colBlob(2), colBlob(3), colBlob(4), colGeometry(3), colGeometry(4), colVarchar(255), colVarchar(256), colChar(255), colChar(256)}
		for li, last := range lastCols {
			for ci, cfg := range allCfgs() {
				if (ci+li)%3 != 0 && !e.Thorough() {
					continue
				}
				t := &Table{ID: uint64(900 + li), DB: "dv", Name: "tend" + itoa(li), Cols: []Col{colInt("long", false), last}}
				t.Cols[0].Name, t.Cols[1].Name = "c0", "c1"
				t.Cols[0].Nullable, t.Cols[1].Nullable = true, true
				l := &Log{Cfg: cfg}
				f := &LogFile{Name: "mysql-bin.000001"}
				l.Files = []*LogFile{f}
				for u, kind := range []string{"write", "update", "delete"} {
					ev := &Ev{K: kind, TS: uint32(1600000000 + u), Tbl: t}
					none := []Cell{{St: "absent"}, {St: "absent"}}
					for r := 0; r < 2; r++ {
						img := func() []Cell {
							return []Cell{{St: "val", Bytes: genCell(e.R, &t.Cols[0], 0)}, {St: "val", Bytes: emptyValue(&t.Cols[1])}}
						}
						rp := RowPair{B: none, A: none}
						if kind != "write" {
							rp.B = img()
						}
						if kind != "delete" {
							rp.A = img()
						}
						ev.Rows = append(ev.Rows, rp)
					}
					f.Units = append(f.Units, &Unit{U: "autorow", Evs: []*Ev{{K: "tablemap", TS: ev.TS, Tbl: t}, ev}})
				}
				l.Layout()
				RunStreamScenario(e.Rec, &StreamScenario{ID: 5000 + li*100 + ci, Fam: "c13", Log: l, Start: l.Boundaries()[0], ServerID: 3,
					Attempts: []AttemptPlan{defaultAttempt()}, Note: "ends-with-empty"})
			}
		}
	}
}

// ---- C09: rows events, C15a: table maps, C16: headers and control events, C17a: validity gate ---------

func bitsOf(bm *replication.Bitmap) []int {
	out := []int{}
	for i := 0; i < bm.Count(); i++ {
		if bm.Bit(i) {
			out = append(out, 1)
		} else {
			out = append(out, 0)
		}
	}
	return out
}

func colsJ(cols []Col) []M {
	out := []M{}
	for _, c := range cols {
		out = append(out, M{"name": B(c.Name), "typ": int(c.Typ), "metab": B(c.MetaB), "uns": c.Uns, "nullable": c.Nullable})
	}
	return out
}

// walkImage decodes an image column by column with CellBytes, returning the consumed lengths.
func walkImage(tm *replication.TableMap, cols []Col, present *replication.Bitmap, nulls *replication.Bitmap, data []byte) M {
	lens := []int{}
	pos := 0
	vi := 0
	var werr error
	rec := safely(func() {
		for c := 0; c < present.Count(); c++ {
			if !present.Bit(c) {
				continue
			}
			if nulls.Bit(vi) {
				vi++
				continue
			}
			_, l, err := replication.CellBytes(data, pos, tm.Types[c], tm.Metadata[c], cols[c].Uns)
			if err != nil {
				werr = err
				return
			}
			lens = append(lens, l)
			pos += l
			vi++
		}
	})
	return M{"lens": lens, "total": pos, "err": werr != nil, "panic": rec.panicked}
}

func init() {
	modes["c09"] = modeC09
	modes["c13r"] = modeC13Rows
	modes["c15a"] = modeC15a
	modes["c16"] = modeC16
	modes["c17a"] = modeC17a
}

func rowsCase(e *Env, cfg WireCfg, t *Table, kind string, rows []RowPair, extra []byte, pb, pa []bool, cls string) {
	f := realFormat(cfg)
	tm, err := realMeta(cfg, f, t.Cols)
	if err != nil {
		panic(err)
	}
	body := rowsBody(cfg, kind, t, rows, extra, pb, pa)
	raw := mkEvent(77, rowsType(cfg, kind), 1, 1000, 0, body, cfg.Checksum)
	ev := replication.NewMysql56BinlogEvent(raw)
	ev, _, _ = ev.StripChecksum(f)
	var rs replication.Rows
	var rerr error
	rec := safely(func() { rs, rerr = ev.Rows(f, tm) })
	obs := M{"err": rerr != nil, "panic": rec.panicked, "nrows": len(rs.Rows), "tid": strconv.FormatUint(ev.TableID(f), 10)}
	orows := []M{}
	if rerr == nil && !rec.panicked {
		obs["presentB"] = bitsOf(&rs.IdentifyColumns)
		obs["presentA"] = bitsOf(&rs.DataColumns)
		for i := range rs.Rows {
			r := &rs.Rows[i]
			o := M{"id": B(append([]byte{}, r.Identify...)), "data": B(append([]byte{}, r.Data...)),
				"nullsB": bitsOf(&r.NullIdentifyColumns), "nullsA": bitsOf(&r.NullColumns)}
			if kind != "write" {
				o["walkB"] = walkImage(tm, t.Cols, &rs.IdentifyColumns, &r.NullIdentifyColumns, r.Identify)
			} else {
				o["walkB"] = M{"lens": []int{}, "total": 0, "err": false, "panic": false}
			}
			if kind != "delete" {
				o["walkA"] = walkImage(tm, t.Cols, &rs.DataColumns, &r.NullColumns, r.Data)
			} else {
				o["walkA"] = M{"lens": []int{}, "total": 0, "err": false, "panic": false}
			}
			orows = append(orows, o)
		}
	} else {
		obs["presentB"], obs["presentA"] = []int{}, []int{}
	}
	obs["rows"] = orows
	arows := []M{}
	for _, r := range rows {
		arows = append(arows, M{"b": cellsJ(r.B, t), "a": cellsJ(r.A, t)})
	}
	emitCase(e, M{"fn": "rows", "cls": cls, "kind": kind, "v2": cfg.RowsV2, "tidw": cfg.TidW, "cksum": cfg.Checksum, "extra": len(extra), "padones": cfg.PadOnes,
		"extrab": B(extra), "evbytes": B(raw), "tidtext": B(strconv.FormatUint(t.ID, 10)),
		"tid": strconv.FormatUint(t.ID, 10), "cols": colsJ(t.Cols), "pb": boolBits(pb), "pa": boolBits(pa), "rows": arows, "obs": obs})
}

func boolBits(b []bool) []int {
	out := []int{}
	for _, v := range b {
		if v {
			out = append(out, 1)
		} else {
			out = append(out, 0)
		}
	}
	return out
}

// lengthClassCols: one representative of each length class of the row format.
func lengthClassCols() []Col {
	return []Col{colInt("tiny", false), colInt("short", false), colInt("int24", false), colInt("long", false), colInt("longlong", false),
		colVarchar(100), colVarchar(300), colChar(10), colChar(300), colBit(10), colDecimal(14, 4), colTime2(3), colDateTime2(6), colTimestamp2(1),
		colBlob(1), colBlob(2), colBlob(3), colBlob(4), colEnum(2), colSet(3), colGeometry(2), colYear(), colDate(), colDateTimeOld(), colFloat(), colDouble()}
}

// modeC13Rows: string / binary columns at the boundaries of their length prefixes inside rows events (the length rule
// used to split rows and the value decoder must agree, and the bytes must come back verbatim).
func modeC13Rows(e *Env) {
	cfgs := allCfgs()
	type lc struct {
		col  Col
		lens []int
	}
	cases := []lc{
		{colBlob(1), []int{0, 1, 254, 255}}, {colBlob(2), []int{0, 255, 256, 65533, 65534, 65535}}, {colBlob(3), []int{0, 65535, 65536, 70000}},
		{colBlob(4), []int{0, 65536, 100000}}, {colGeometry(2), []int{0, 256, 65534, 65535}},
		{colVarchar(65535), []int{0, 255, 256, 65533, 65534, 65535}}, {colVarchar(255), []int{0, 254, 255}}, {colVarchar(256), []int{0, 255, 256}},
		{colChar(255), []int{0, 254, 255}}, {colChar(256), []int{0, 255, 256}}, {colChar(1023), []int{0, 767, 768, 1022, 1023}},
	}
	for rep := 0; rep < e.N(1, 6); rep++ {
		for i, c := range cases {
			for _, l := range c.lens {
				cfg := cfgs[(i+l+rep)%len(cfgs)]
				t := &Table{ID: 77, DB: "ds", Name: "ts"}
				a := colInt("long", false)
				a.Name = "id"
				b := c.col
				b.Name = "v"
				z := colInt("tiny", false)
				z.Name = "z"
				t.Cols = []Col{a, b, z}
				mk := func() []Cell {
					pre := 1
					if b.Kind == "blob" || b.Kind == "geometry" {
						pre = b.P1
					} else if b.P1 > 255 {
						pre = 2
					}
					return []Cell{{St: "val", Bytes: genCell(e.R, &a, 0)}, {St: "val", Bytes: append(leN(uint64(l), pre), randBytes(e.R, l)...)},
						{St: "val", Bytes: genCell(e.R, &z, 0)}}
				}
				none := []Cell{{St: "absent"}, {St: "absent"}, {St: "absent"}}
				kind := pickS(e.R, "write", "update", "delete")
				var rows []RowPair
				for r := 0; r < 2; r++ {
					rp := RowPair{B: none, A: none}
					if kind != "write" {
						rp.B = mk()
					}
					if kind != "delete" {
						rp.A = mk()
					}
					rows = append(rows, rp)
				}
				all := []bool{true, true, true}
				rowsCase(e, cfg, t, kind, rows, nil, all, all, "prefix-boundary")
			}
		}
	}
}

func modeC09(e *Env) {
	cfgs := allCfgs()
	lc := lengthClassCols()
	// (a) small shapes: 1..3 columns from the length classes, presence and NULL patterns, 0..2 rows, all kinds and versions
	n := e.N(600, 20000)
	for i := 0; i < n; i++ {
		cfg := cfgs[i%len(cfgs)]
		nc := 1 + e.R.Intn(3)
		t := &Table{ID: uint64(1 + e.R.Intn(1<<20)), DB: "d", Name: "t"}
		if cfg.TidW == 6 && e.R.Intn(2) == 0 {
			t.ID = uint64(e.R.Int63n(1 << 48))
		}
		for c := 0; c < nc; c++ {
			col := lc[e.R.Intn(len(lc))]
			col.Name = "c" + itoa(c)
			t.Cols = append(t.Cols, col)
		}
		rowsRandom(e, cfg, t, e.R.Intn(3), "small")
	}
	// (a1) every DECIMAL(p,s): the byte length of the cell depends on both parameters (all 1 520 valid pairs)
	for p := 1; p <= 65; p++ {
		for sc := 0; sc <= 30 && sc <= p; sc++ {
			if !e.Thorough() && (p*31+sc+int(e.Seed))%3 != 0 && !(p >= 64 || p == sc || sc == 0 && p%9 <= 1) {
				continue // quick: a third of the pairs (rotating with the seed) plus the boundary pairs
			}
			t := &Table{ID: uint64(1 + e.R.Intn(1<<20)), DB: "dd", Name: "tdec", Cols: []Col{colDecimal(p, sc), colInt("tiny", false)}}
			t.Cols[0].Name, t.Cols[1].Name = "c0", "c1"
			rowsRandom(e, cfgs[(p+sc)%len(cfgs)], t, 2, "decimal-all-ps")
		}
	}
	// (a1b) the event ends with an empty value: every length-prefixed kind as the LAST cell of the LAST row, empty, so that
	// its length prefix is the last thing in the event (a length rule that reads one byte too many runs off the end)
	lastCols := []Col{colBlob(1), colBlob(2), colBlob(3), colBlob(4), colGeometry(1), colGeometry(2), colGeometry(3), colGeometry(4),
		colVarchar(20), colVarchar(255), colVarchar(256), colVarchar(65535), colChar(10), colChar(255), colChar(256), colChar(1023)}
	for li, last := range lastCols {
		for _, kind := range []string{"write", "update", "delete"} {
			for _, cfg := range []WireCfg{cfgs[(li*3)%len(cfgs)], cfgs[(li*3+7)%len(cfgs)]} {
				t := &Table{ID: uint64(1 + e.R.Intn(1<<20)), DB: "de", Name: "tend", Cols: []Col{colInt("long", false), last}}
				t.Cols[0].Name, t.Cols[1].Name = "c0", "c1"
				all := []bool{true, true}
				none := []Cell{{St: "absent"}, {St: "absent"}}
				var rows []RowPair
				for r := 0; r < 2; r++ {
					img := func() []Cell {
						return []Cell{{St: "val", Bytes: genCell(e.R, &t.Cols[0], 0)}, {St: "val", Bytes: emptyValue(&t.Cols[1])}}
					}
					rp := RowPair{B: none, A: none}
					if kind != "write" {
						rp.B = img()
					}
					if kind != "delete" {
						rp.A = img()
					}
					rows = append(rows, rp)
				}
				rowsCase(e, cfg, t, kind, rows, nil, all, all, "ends-with-empty")
			}
		}
	}
	// (a2) long values: length-prefixed kinds with 2..4 length bytes and payloads around 255/256, 64K and beyond
	longCols := []Col{colBlob(2), colBlob(3), colBlob(4), colGeometry(2), colGeometry(4), colVarchar(65535), colVarchar(300), colChar(300), colChar(1023)}
	for i := 0; i < e.N(60, 1500); i++ {
		cfg := cfgs[i%len(cfgs)]
		t := &Table{ID: uint64(1 + e.R.Intn(1<<20)), DB: "dl", Name: "tl"}
		for c := 0; c < 1+e.R.Intn(3); c++ {
			col := longCols[e.R.Intn(len(longCols))]
			if e.R.Intn(3) == 0 {
				col = lc[e.R.Intn(len(lc))]
			}
			col.Name = "c" + itoa(c)
			t.Cols = append(t.Cols, col)
		}
		kind := pickS(e.R, "write", "update", "delete")
		nc := len(t.Cols)
		all := make([]bool, nc)
		for k := range all {
			all[k] = true
		}
		var rows []RowPair
		for r := 0; r < 1+e.R.Intn(3); r++ {
			img := func() []Cell {
				cells := make([]Cell, nc)
				for k := range cells {
					c := &t.Cols[k]
					lim := pick(e.R, 255, 256, 257, 300, 4096, 65535, 65536, 70000)
					switch c.Kind {
					case "varchar", "char":
						if lim > c.P1 {
							lim = c.P1
						}
						cells[k] = Cell{St: "val", Bytes: append(leN(uint64(lim), map[bool]int{true: 2, false: 1}[c.P1 > 255]), randBytes(e.R, lim)...)}
					case "blob", "geometry":
						if c.P1 < 4 && lim > 1<<(8*uint(c.P1))-1 {
							lim = 1<<(8*uint(c.P1)) - 1 // the largest length the prefix can hold
						}
						cells[k] = Cell{St: "val", Bytes: append(leN(uint64(lim), c.P1), randBytes(e.R, lim)...)}
					default:
						cells[k] = Cell{St: "val", Bytes: genCell(e.R, c, 30)}
					}
				}
				return cells
			}
			none := genImage(e.R, t, make([]bool, nc), 0)
			rp := RowPair{B: none, A: none}
			if kind != "write" {
				rp.B = img()
			}
			if kind != "delete" {
				rp.A = img()
			}
			rows = append(rows, rp)
		}
		rowsCase(e, cfg, t, kind, rows, nil, all, all, "long")
	}
	// (b) wide: all types x full metadata domain, up to 300 columns, up to 50 rows
	m := e.N(40, 1200)
	for i := 0; i < m; i++ {
		cfg := cfgs[e.R.Intn(len(cfgs))]
		nc := 1 + e.R.Intn(e.N(60, 300))
		if i%7 == 0 {
			nc = 250 + e.R.Intn(51) // column counts around the 1-byte / 3-byte length-encoded boundary (251)
		}
		t := &Table{ID: uint64(1 + e.R.Intn(1<<20)), DB: "dw", Name: "tw"}
		for c := 0; c < nc; c++ {
			col := randomCol(e.R)
			col.Name = "c" + itoa(c)
			t.Cols = append(t.Cols, col)
		}
		rowsRandom(e, cfg, t, e.R.Intn(e.N(6, 50)+1), "wide")
	}
}

func rowsRandom(e *Env, cfg WireCfg, t *Table, nrows int, cls string) {
	cfg.PadOnes = e.R.Intn(3) == 0
	kind := pickS(e.R, "write", "update", "delete")
	nc := len(t.Cols)
	pb, pa := genPresent(e.R, nc), genPresent(e.R, nc)
	var rows []RowPair
	none := make([]bool, nc)
	for r := 0; r < nrows; r++ {
		rp := RowPair{B: genImage(e.R, t, none, 0), A: genImage(e.R, t, none, 0)}
		if kind != "write" {
			rp.B = genImage(e.R, t, pb, 30)
		}
		if kind != "delete" {
			rp.A = genImage(e.R, t, pa, 30)
		}
		rows = append(rows, rp)
	}
	var extra []byte
	if cfg.RowsV2 {
		extra = randBytes(e.R, pick(e.R, 0, 1, 8, e.R.Intn(40)))
	}
	rowsCase(e, cfg, t, kind, rows, extra, pb, pa, cls)
}

// modeC15a: table-map events.
func modeC15a(e *Env) {
	cfgs := allCfgs()
	n := e.N(300, 8000)
	for i := 0; i < n; i++ {
		cfg := cfgs[i%len(cfgs)]
		f := realFormat(cfg)
		nc := 1 + e.R.Intn(12)
		switch i % 6 {
		case 1:
			nc = 245 + e.R.Intn(12) // around 251
		case 2:
			nc = 1 + e.R.Intn(600)
		}
		t := &Table{ID: uint64(e.R.Intn(1 << 30)), DB: randName(e.R, 1+e.R.Intn(20)), Name: randName(e.R, 1+e.R.Intn(30))}
		if i%9 == 0 {
			t.DB, t.Name = string(randBytes(e.R, 255)), string(randBytes(e.R, 255))
		}
		if i%9 == 4 {
			// name lengths around the values that look like length-encoding escape bytes (251..254) and the maximum
			t.DB, t.Name = string(randBytes(e.R, pick(e.R, 250, 251, 252, 253, 254, 255))), string(randBytes(e.R, pick(e.R, 250, 251, 252, 253, 254, 255)))
		}
		if cfg.TidW == 6 && i%2 == 0 {
			t.ID = uint64(e.R.Int63n(1 << 48))
		}
		for c := 0; c < nc; c++ {
			col := randomCol(e.R)
			col.Nullable = e.R.Intn(2) == 0
			t.Cols = append(t.Cols, col)
		}
		tail := optTail(e.R)
		if i%4 == 0 {
			tail = randBytes(e.R, 1+e.R.Intn(60))
		}
		raw := mkEvent(5, tTableMap, 3, 800, 0, tableMapBody(cfg, t, tail), cfg.Checksum)
		ev := replication.NewMysql56BinlogEvent(raw)
		ev, _, _ = ev.StripChecksum(f)
		var tm *replication.TableMap
		var terr error
		var tid uint64
		rec := safely(func() { tid = ev.TableID(f); tm, terr = ev.TableMap(f) })
		obs := M{"err": terr != nil, "panic": rec.panicked, "tid": strconv.FormatUint(tid, 10), "istm": ev.IsTableMap()}
		if terr == nil && !rec.panicked && tm != nil {
			types := []int{}
			metas := []int{}
			for c := range tm.Types {
				types = append(types, int(tm.Types[c]))
				metas = append(metas, int(tm.Metadata[c]))
			}
			obs["db"], obs["name"], obs["types"], obs["metas"], obs["nullable"] = B(tm.Database), B(tm.Name), types, metas, bitsOf(&tm.CanBeNull)
		} else {
			obs["db"], obs["name"], obs["types"], obs["metas"], obs["nullable"] = B(nil), B(nil), []int{}, []int{}, []int{}
		}
		emitCase(e, M{"fn": "tablemap", "cls": "tablemap", "tidw": cfg.TidW, "cksum": cfg.Checksum, "tid": strconv.FormatUint(t.ID, 10),
			"tail": B(tail), "evbytes": B(raw), "tidtext": B(strconv.FormatUint(t.ID, 10)),
			"db": B(t.DB), "name": B(t.Name), "cols": colsJ(t.Cols), "taillen": len(tail), "obs": obs})
	}
}

// statusVars builds a status-variable block from a subset of the codes MySQL emits, in MySQL's order.
func statusVars(r *rand.Rand) (vars []byte, charset []int, codes []int) {
	type sv struct {
		code byte
		gen  func() []byte
	}
	// length-prefixed payloads: any length a one-byte prefix can express, boundaries often
	nstr := func(max int) []byte {
		n := r.Intn(max + 1)
		if r.Intn(3) == 0 {
			n = []int{0, 1, 127, 128, 253, 254, 255}[r.Intn(7)]
		}
		return append([]byte{byte(n)}, randBytes(r, n)...)
	}
	oldCatalog := r.Intn(4) == 0 // Q_CATALOG_CODE (2: length, name, NUL) as written by 5.0.0-5.0.3 instead of Q_CATALOG_NZ_CODE (6)
	cs := []int{-1, -1, -1}
	order := []sv{
		{0, func() []byte { return randBytes(r, 4) }},
		{1, func() []byte { return randBytes(r, 8) }},
		{6, func() []byte { return nstr(20) }},
		{3, func() []byte { return randBytes(r, 4) }},
		{4, func() []byte {
			a, b, c := r.Intn(65536), r.Intn(65536), r.Intn(65536)
			cs = []int{a, b, c}
			return append(append(le16(uint16(a)), le16(uint16(b))...), le16(uint16(c))...)
		}},
		{5, func() []byte { return nstr(30) }},
		{7, func() []byte { return randBytes(r, 2) }},
		{8, func() []byte { return randBytes(r, 2) }},
		{9, func() []byte { return randBytes(r, 8) }},
		{10, func() []byte { return randBytes(r, 4) }},
		{11, func() []byte { return append(nstr(16), nstr(16)...) }},
		{12, func() []byte {
			n := r.Intn(4)
			b := []byte{byte(n)}
			for i := 0; i < n; i++ {
				b = append(b, randName(r, 1+r.Intn(8))...)
				b = append(b, 0)
			}
			return b
		}},
		{13, func() []byte { return randBytes(r, 3) }},
		{16, func() []byte { return randBytes(r, 1) }},
		{17, func() []byte { return randBytes(r, 8) }},
		{18, func() []byte { return randBytes(r, 2) }},
		{19, func() []byte { return randBytes(r, 1) }},
		{20, func() []byte { return randBytes(r, 1) }},
	}
	// which subset: structured shapes first (every variable alone, as the last one, as the first one, pairs with the
	// charset variable, prefixes and suffixes of MySQL's order), random subsets otherwise
	n := len(order)
	in := make([]bool, n)
	svCounter++
	switch shape := svCounter % 8; shape {
	case 0: // singleton
		in[(svCounter/8)%n] = true
	case 1: // prefix ending at k (k is the LAST variable of the block)
		k := (svCounter / 8) % n
		for i := 0; i <= k; i++ {
			in[i] = r.Intn(3) != 0
		}
		in[k] = true
	case 2: // suffix starting at k (k is the FIRST variable)
		k := (svCounter / 8) % n
		for i := k; i < n; i++ {
			in[i] = r.Intn(3) != 0
		}
		in[k] = true
	case 3: // a pair: some variable and the charset
		in[(svCounter/8)%n] = true
		in[4] = true
	case 4: // everything
		for i := range in {
			in[i] = true
		}
	default:
		for i := range in {
			in[i] = r.Intn(2) == 0
		}
	}
	for i, v := range order {
		if in[i] {
			code, payload := v.code, v.gen()
			if code == 6 && oldCatalog {
				code, payload = 2, append(payload, 0)
			}
			vars = append(vars, code)
			vars = append(vars, payload...)
			codes = append(codes, int(code))
		}
	}
	return vars, cs, codes
}

var svCounter int

// modeC16: event headers and control events, with and without a trailing CRC32.
func modeC16(e *Env) {
	histWriterCases(e)
	n := e.N(400, 10000)
	for i := 0; i < n; i++ {
		for _, alg := range []int{0, 1, 255} {
			cfg := codecCfg
			cfg.Checksum = alg == 1
			cfg.NTypes = pick(e.R, 35, 38, 40, 41, 27+e.R.Intn(229), 255)
			if i%2 == 0 {
				cfg.SizesFill = byte(1 + e.R.Intn(250))
			}
			cfg.SrvVer = string(randBytes(e.R, pick(e.R, 0, 1, 49, 50, e.R.Intn(51))))
			for j := 0; j < len(cfg.SrvVer); j++ { // a server version has no NUL bytes
				if cfg.SrvVer[j] == 0 {
					cfg.SrvVer = cfg.SrvVer[:j] + "x" + cfg.SrvVer[j+1:]
				}
			}
			ts, sid, np, flags := e.R.Uint32(), e.R.Uint32(), e.R.Uint32(), uint16(e.R.Intn(65536))
			if i%5 == 0 {
				ts, sid, np = []uint32{0, 1, 1<<31 - 1, 1 << 31, 1<<32 - 1}[e.R.Intn(5)], []uint32{0, 1<<32 - 1, 1 << 31}[e.R.Intn(3)], []uint32{0, 4, 1<<32 - 1, 1 << 31}[e.R.Intn(4)]
			}
			// FORMAT_DESCRIPTION
			fcreate := e.R.Uint32()
			fb := fdeBody(cfg, fcreate, byte(alg))
			fraw := mkEvent(ts, tFormatDesc, sid, np, flags, fb, true)
			fev := replication.NewMysql56BinlogEvent(fraw)
			var f replication.BinlogFormat
			var ferr error
			rec := safely(func() { f, ferr = fev.Format() })
			hs := []int{}
			for _, b := range f.HeaderSizes {
				hs = append(hs, int(b))
			}
			// the accessor, for every event type the table describes
			hacc := []int{}
			accPanic := safely(func() {
				for t := 1; t <= len(f.HeaderSizes); t++ {
					hacc = append(hacc, int(f.HeaderSize(byte(t))))
				}
			}).panicked
			emitCase(e, M{"fn": "ev.fde", "cls": "fde", "alg": alg, "ts": u32s(ts), "sid": u32s(sid), "np": u32s(np), "len": len(fraw),
				"flags": int(flags), "create4": B(le32(fcreate)), "raw": B(fraw),
				"srvver": B(cfg.SrvVer), "sizes": B(cfg.postHeaderLens()),
				"obs": M{"err": ferr != nil, "panic": rec.panicked, "valid": fev.IsValid(), "isfde": fev.IsFormatDescription(), "ts": u32s(fev.Timestamp()),
					"np": strconv.FormatInt(fev.NextPosition(), 10), "version": int(f.FormatVersion), "srvver": B(f.ServerVersion), "hlen": int(f.HeaderLength),
					"alg": int(f.ChecksumAlgorithm), "sizes": hs, "sizesByAccessor": hacc, "accPanic": accPanic}})
			if ferr != nil || rec.panicked {
				continue
			}
			crc := alg == 1
			lastValid := false
			var lastRaw, lastCks []byte
			var lastStripErr error
			dec := func(typ byte, body []byte) replication.BinlogEvent {
				raw := mkEvent(ts, typ, sid, np, flags, body, crc)
				lastRaw = raw
				ev := replication.NewMysql56BinlogEvent(raw)
				lastValid = ev.IsValid()
				ev, lastCks, lastStripErr = ev.StripChecksum(f)
				return ev
			}
			hdr := func(ev replication.BinlogEvent) M {
				return M{"valid": lastValid, "ts": u32s(ev.Timestamp()), "np": strconv.FormatInt(ev.NextPosition(), 10), "raw": B(lastRaw),
					"striperr": lastStripErr != nil}
			}
			// any event type, bodies from empty (STOP, HEARTBEAT-like header-only events) upwards: applying the announced
			// checksum algorithm removes exactly the four trailing bytes, or nothing
			for _, blen := range []int{0, pick(e.R, 1, 3, 4, 5), e.R.Intn(40)} {
				typ := byte(pick(e.R, 3, 27, 16, 2, 4, 5, 13, 19, 33, 35, e.R.Intn(256)))
				if typ == tFormatDesc {
					typ = 3
				}
				body := randBytes(e.R, blen)
				gev := dec(typ, body)
				o := hdr(gev)
				o["stripped"], o["cks"] = B(gev.Bytes()), B(lastCks)
				emitCase(e, M{"fn": "ev.any", "cls": "any-event", "alg": alg, "ts": u32s(ts), "np": u32s(np), "sid": u32s(sid), "flags": int(flags),
					"typ": int(typ), "body": B(body), "obs": o})
			}
			// ROTATE
			rname := string(randBytes(e.R, pick(e.R, 1, 16, 255, e.R.Intn(100)+1)))
			rpos := e.R.Uint64() >> uint(e.R.Intn(64))
			rev := dec(tRotate, rotateBody(rpos, rname))
			var gotName string
			var gotPos int64
			var rerr error
			rec = safely(func() { gotName, gotPos, rerr = rev.Rotate(f) })
			o := hdr(rev)
			o["err"], o["panic"], o["is"], o["file"], o["pos"] = rerr != nil, rec.panicked, rev.IsRotate(), B(gotName), B(strconv.FormatUint(uint64(gotPos), 10))
			emitCase(e, M{"fn": "ev.rotate", "cls": "rotate", "alg": alg, "ts": u32s(ts), "np": u32s(np), "sid": u32s(sid), "flags": int(flags), "file": B(rname), "pos": B(strconv.FormatUint(rpos, 10)), "obs": o})
			// QUERY
			vars, cs, codes := statusVars(e.R)
			db := string(randBytes(e.R, pick(e.R, 0, 1, 255, e.R.Intn(64))))
			for j := 0; j < len(db); j++ {
				if db[j] == 0 {
					db = db[:j] + "d" + db[j+1:]
				}
			}
			sql := string(randBytes(e.R, pick(e.R, 0, 1, 64, e.R.Intn(300), e.N(2000, 65536))))
			qthread, qexec, qerr16 := e.R.Uint32(), e.R.Uint32(), uint16(e.R.Intn(65536))
			qev := dec(tQuery, queryBody(qthread, qexec, db, qerr16, vars, sql))
			var q replication.Query
			var qerr error
			rec = safely(func() { q, qerr = qev.Query(f) })
			o = hdr(qev)
			ocs := []int{-1, -1, -1}
			if q.Charset != nil {
				ocs = []int{int(q.Charset.Client), int(q.Charset.Conn), int(q.Charset.Server)}
			}
			o["err"], o["panic"], o["is"], o["db"], o["sql"], o["charset"] = qerr != nil, rec.panicked, qev.IsQuery(), B(q.Database), B(q.SQL), ocs
			emitCase(e, M{"fn": "ev.query", "cls": "query", "alg": alg, "ts": u32s(ts), "np": u32s(np), "sid": u32s(sid), "flags": int(flags),
				"thread4": B(le32(qthread)), "exec4": B(le32(qexec)), "err2": B(le16(qerr16)), "vars": B(vars),
				"db": B(db), "sql": B(sql), "charset": cs, "codes": codes, "obs": o})
			// XID / INTVAR / RAND
			xid8 := le64(e.R.Uint64())
			xev := dec(tXid, xid8)
			o = hdr(xev)
			o["is"] = xev.IsXID()
			emitCase(e, M{"fn": "ev.xid", "cls": "xid", "alg": alg, "ts": u32s(ts), "np": u32s(np), "sid": u32s(sid), "flags": int(flags), "xid8": B(xid8), "obs": o})
			ivk := byte(1 + e.R.Intn(2))
			ivv := e.R.Uint64()
			iev := dec(tIntVar, append([]byte{ivk}, le64(ivv)...))
			var gk byte
			var gv uint64
			var ierr error
			rec = safely(func() { gk, gv, ierr = iev.IntVar(f) })
			o = hdr(iev)
			o["err"], o["panic"], o["is"], o["kind"], o["value"] = ierr != nil, rec.panicked, iev.IsIntVar(), int(gk), B(strconv.FormatUint(gv, 10))
			emitCase(e, M{"fn": "ev.intvar", "cls": "intvar", "alg": alg, "ts": u32s(ts), "np": u32s(np), "sid": u32s(sid), "flags": int(flags), "kind": int(ivk), "value": B(strconv.FormatUint(ivv, 10)), "obs": o})
			s1, s2 := e.R.Uint64(), e.R.Uint64()
			dev := dec(tRand, append(le64(s1), le64(s2)...))
			var g1, g2 uint64
			rec = safely(func() { g1, g2, _ = dev.Rand(f) })
			o = hdr(dev)
			o["panic"], o["is"], o["s1"], o["s2"] = rec.panicked, dev.IsRand(), B(strconv.FormatUint(g1, 10)), B(strconv.FormatUint(g2, 10))
			emitCase(e, M{"fn": "ev.rand", "cls": "rand", "alg": alg, "ts": u32s(ts), "np": u32s(np), "sid": u32s(sid), "flags": int(flags), "s1": B(strconv.FormatUint(s1, 10)), "s2": B(strconv.FormatUint(s2, 10)), "obs": o})
		}
	}
}

// histWriterCases: every event of generated stream-family histories as a case line with its abstract content and its
// bytes, so that the replay can require bytes = EventFormat's encoding (HARNESS.writer): the writer behind the stream
// family is cross-checked by the specification too. The real code only contributes IsValid / header accessors here.
func histWriterCases(e *Env) {
	cfgs := allCfgs()
	for i := 0; i < e.N(24, 200); i++ {
		cfg := cfgs[(i*5+int(e.Seed))%len(cfgs)]
		l := GenLog(e.R, cfg, quickGP(), []uint32{0, 1<<31 - 500, 1<<32 - 300000}[0:1+i%3])
		bs := l.Boundaries()
		evs, _ := l.Served(bs[e.R.Intn(len(bs))])
		for _, ev := range evs {
			be := replication.NewMysql56BinlogEvent(ev.Bytes)
			np := ev.End
			flags := 0
			if ev.Fake || ev.K == "heartbeat" {
				np, flags = 0, 0x20
				if ev.K == "heartbeat" {
					np = ev.Start
				}
			}
			m := M{"fn": "ev.hist", "cls": "hist-" + ev.K, "k": ev.K, "evbytes": B(ev.Bytes), "ts": u32s(ev.TS), "np": u32s(np), "sid": u32s(cfg.ServerID),
				"flags": flags, "cksum": cfg.Checksum, "tidw": cfg.TidW, "v2": cfg.RowsV2, "padones": l.Cfg.PadOnes,
				"obs": M{"valid": be.IsValid(), "ts": u32s(be.Timestamp()), "np": strconv.FormatInt(be.NextPosition(), 10)}}
			switch ev.K {
			case "fde":
				alg := 0
				if cfg.Checksum {
					alg = 1
				}
				m["srvver"], m["create4"], m["sizes"], m["alg"] = B(cfg.SrvVer), B(le32(ev.TS)), B(cfg.postHeaderLens()), alg
			case "rotate":
				m["pos"], m["file"] = B(strconv.FormatUint(ev.RotPos, 10)), B(ev.RotFile)
			case "xid":
				m["xid8"] = B(le64(uint64(ev.TS)*7 + 3))
			case "query":
				m["thread4"], m["exec4"], m["err2"], m["vars"], m["db"], m["sql"] = B(le32(11)), B(le32(0)), B(le16(0)), B(ev.SV), B(ev.DB), B(ev.SQL)
			case "tablemap":
				m["tidtext"], m["db"], m["name"], m["cols"], m["tail"] = B(strconv.FormatUint(ev.Tbl.ID, 10)), B(ev.Tbl.DB), B(ev.Tbl.Name), colsJ(ev.Tbl.Cols), B(ev.Tail)
			case "write", "update", "delete":
				rows := []M{}
				for _, r := range ev.Rows {
					rows = append(rows, M{"b": cellsJ(r.B, ev.Tbl), "a": cellsJ(r.A, ev.Tbl)})
				}
				m["tidtext"], m["cols"], m["rows"], m["extrab"] = B(strconv.FormatUint(ev.Tbl.ID, 10)), colsJ(ev.Tbl.Cols), rows, B(ev.Extra)
				m["pb"], m["pa"] = boolBits(presentOf(ev.Rows[0].B)), boolBits(presentOf(ev.Rows[0].A))
			case "gtid", "anongtid":
				sid := ev.Sid
				gno := ev.Gno
				if ev.K == "anongtid" {
					sid, gno = [16]byte{}, 0
				}
				tail := []byte{}
				if cfg.NTypes >= 38 {
					tail = append(append([]byte{2}, le64(1)...), le64(2)...)
				}
				m["sid16"], m["gno8"], m["gtail"] = B(append([]byte{}, sid[:]...)), B(le64(uint64(gno))), B(tail)
			case "prevgtids":
				m["rep"] = repJ([]sidEntry{{ev.Sid, []ivl{{1, ev.Gno}}}})
			case "heartbeat":
				m["file"] = B(ev.RotFile)
			case "unknown":
				m["code"], m["body"] = int(ev.Code), B([]byte{1, 2, 3, 4, 5, 6, 7, 8})
			}
			emitCase(e, m)
		}
	}
}

// modeC17a: the validity test on arbitrary bytes; header accessors on accepted buffers.
func modeC17a(e *Env) {
	ntry := 0
	try := func(buf []byte, cls string) {
		// now and then a format description that announces another common header length (4, 13, 27, 255) is decoded in between
		// - another stream in the same process, a hostile master -: whether a buffer is accepted depends on the buffer alone
		if ntry++; ntry%7 == 3 {
			for _, hl := range []byte{4, 13, 27, 255} {
				l := &Log{Cfg: codecCfg}
				fe := &Ev{K: "fde", TS: 1}
				l.layoutEv(fe, 4)
				b := append([]byte(nil), fe.Bytes...)
				b[19+2+50+4] = hl
				safely(func() { replication.NewMysql56BinlogEvent(b).Format() })
				safely(func() { replication.NewMariadbBinlogEvent(b).Format() })
			}
		}
		buf = append(make([]byte, 0, len(buf)), buf...) // capacity = length, as the connection layer produces its events
		ev := replication.NewMysql56BinlogEvent(buf)
		valid := false
		rec := safely(func() { valid = ev.IsValid() })
		o := M{"valid": valid, "panic": rec.panicked, "accpanic": false}
		if valid && !rec.panicked {
			r2 := safely(func() {
				_ = ev.Timestamp()
				_ = ev.NextPosition()
				_ = ev.IsFormatDescription()
				_ = ev.IsQuery()
				_ = ev.IsXID()
				_ = ev.IsGTID()
				_ = ev.IsRotate()
				_ = ev.IsIntVar()
				_ = ev.IsRand()
				_ = ev.IsPreviousGTIDs()
				_ = ev.IsRowsQuery()
				_ = ev.IsTableMap()
				_ = ev.IsWriteRows()
				_ = ev.IsUpdateRows()
				_ = ev.IsDeleteRows()
				_ = ev.IsPseudo()
				_ = ev.Bytes()
				// every accessor without arguments the event type has, whether or not the BinlogEvent interface lists it
				// (Type, Flags, ServerID, Length, ...), on both flavors' wrappers
				for _, x := range []interface{}{ev, replication.NewMariadbBinlogEvent(buf)} {
					v := reflect.ValueOf(x)
					for mi := 0; mi < v.NumMethod(); mi++ {
						name := v.Type().Method(mi).Name
						header := strings.HasPrefix(name, "Is") || name == "Type" || name == "Flags" || name == "Timestamp" || name == "ServerID" ||
							name == "Length" || name == "NextPosition" || name == "Bytes"
						if header && v.Method(mi).Type().NumIn() == 0 {
							v.Method(mi).Call(nil)
						}
					}
				}
			})
			o["accpanic"] = r2.panicked
		}
		emitCase(e, M{"fn": "isvalid", "cls": cls, "buf": B(buf), "obs": o})
	}
	// events larger than one protocol packet (16 MiB - 1): the master splits them over several packets and the driver
	// reassembles them, so they reach the validity test as one buffer. Only the header and the length travel in the trace.
	for _, n := range []int{1<<24 - 2, 1<<24 - 1, 1 << 24, 1<<24 + 1, 1<<24 + 19, 1<<24 + 4115, 1 << 25, 3<<24 + 5} {
		for _, d := range []int{0, 0, -1, 1} {
			buf := make([]byte, n)
			copy(buf, randBytes(e.R, 19))
			buf[4] = []byte{30, 31, 23, 2}[e.R.Intn(4)]
			lf := uint32(n + d)
			buf[9], buf[10], buf[11], buf[12] = byte(lf), byte(lf>>8), byte(lf>>16), byte(lf>>24)
			ev := replication.NewMysql56BinlogEvent(buf)
			valid := false
			rec := safely(func() { valid = ev.IsValid() })
			emitCase(e, M{"fn": "isvalid.big", "cls": "big-event", "n": n, "hdr": B(buf[:19]), "obs": M{"valid": valid, "panic": rec.panicked}})
			if !e.Thorough() && d != 0 {
				break
			}
		}
	}
	// structured classes: every length 0..64 x length field in {len-1, len, len+1, 0, 18, 19, 2^32-1} x some type bytes
	for l := 0; l <= 64; l++ {
		for _, lf := range []int64{int64(l) - 1, int64(l), int64(l) + 1, 0, 18, 19, 1<<32 - 1, int64(l) + 256, int64(l) + 65536, int64(l) + 1<<24,
			int64(l) + 4, int64(l) - 4, int64(l) + 2, int64(l) + 3, int64(l) + 5, int64(l) + 8} {
			for _, typ := range []byte{0, 2, 15, 16, 19, 255} {
				buf := randBytes(e.R, l)
				if l >= 5 {
					buf[4] = typ
				}
				if l >= 13 && lf >= 0 {
					copy(buf[9:13], le32(uint32(lf)))
				}
				try(buf, "structured")
			}
		}
	}
	// every well-formed event of a history truncated at / extended from every length
	lg := GenLog(e.R, allCfgs()[e.R.Intn(len(allCfgs()))], smallGP(), nil)
	evs, _ := lg.Served(lg.Boundaries()[0])
	for _, ev := range evs {
		for l := 0; l <= len(ev.Bytes); l++ {
			try(ev.Bytes[:l], "truncated")
		}
		for x := 1; x <= 3; x++ {
			try(append(append([]byte{}, ev.Bytes...), randBytes(e.R, x)...), "extended")
		}
	}
	for i := 0; i < e.N(300, 20000); i++ {
		try(randBytes(e.R, e.R.Intn(400)), "random")
	}
}
