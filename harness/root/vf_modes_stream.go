package gobinlog_test

import (
	"encoding/binary"
	"math/rand"
	"strings"
)

// allCfgs enumerates the wire configurations of C01's quantifier. (rows v2 with 4-byte table ids
// is not a format MySQL can produce - 4-byte ids predate v2 rows events - and is left out.)
func allCfgs() []WireCfg {
	var out []WireCfg
	for _, ck := range []bool{false, true} {
		for _, v2 := range []bool{false, true} {
			for _, tw := range []int{4, 6} {
				for _, g := range []bool{false, true} {
					if v2 && tw == 4 {
						continue
					}
					nt := 38
					if !g && !v2 {
						nt = 35
					}
					out = append(out, WireCfg{Checksum: ck, RowsV2: v2, TidW: tw, Gtid: g, NTypes: nt,
						SrvVer: "5.7.30-log", ServerID: 77})
				}
			}
		}
	}
	return out
}

func quickGP() GenParams {
	return GenParams{MaxUnits: 6, MaxStmts: 3, MaxTables: 3, MaxRows: 3, MaxCols: 5, MaxFiles: 3, MaxPayload: 40}
}

func init() {
	modes["c01"] = modeC01
	modes["c02"] = modeC02
	modes["c03"] = modeC03
}

// casing returns word with the letters selected by the bits of mask upper-cased.
func casing(word string, mask int) string {
	b := []byte(word)
	for i := range b {
		if mask&(1<<uint(i)) != 0 {
			b[i] -= 32
		}
	}
	return string(b)
}

// modeC02: transaction boundaries. Exhaustive unit sequences from TLC (lock-step pacing, so that the
// causal monitor is meaningful), all casings of the boundary keywords, random sequences beyond the bound.
func modeC02(e *Env) {
	cfgs := allCfgs()
	gp := quickGP()
	gp.SimpleCols = true
	id := 0
	for i, s := range e.ReadScenarios() {
		units, _ := s["units"].([]interface{})
		l := logFromAbstract(e.R, cfgs[i%len(cfgs)], gp, units)
		a := defaultAttempt()
		a.Pacing = "lockstep"
		id++
		RunStreamScenario(e.Rec, &StreamScenario{ID: id, Fam: "c02", Log: l, Start: l.Boundaries()[0], ServerID: 7,
			Attempts: []AttemptPlan{a}, Note: "tlc"})
	}
	// statements the library has no kind for, between and inside transactions: they never alter the grouping
	for i := 0; i < e.N(2, 16); i++ {
		a := defaultAttempt()
		a.Pacing = "lockstep"
		id++
		l := verbsLog(e.R, cfgs[e.R.Intn(len(cfgs))], gp)
		RunStreamScenario(e.Rec, &StreamScenario{ID: id, Fam: "c02", Log: l, Start: l.Boundaries()[0], ServerID: 7,
			Attempts: []AttemptPlan{a}, Note: "unknown-verbs"})
	}
	// binlog_checksum is switched while the stream runs (SET GLOBAL binlog_checksum rotates the log): the next file's format
	// description announces the other algorithm, and its events are framed accordingly
	for i := 0; i < e.N(4, 32); i++ {
		l := logFromAbstract(e.R, cfgs[e.R.Intn(len(cfgs))], gp, []interface{}{"txxid", "rotate", "txcommit", "ddl", "txxid", "txrollback", "rotate", "autorow", "txcommit"})
		flip := !l.Cfg.Checksum
		l.Files[1].Cksum = &flip
		l.Layout()
		a := defaultAttempt()
		a.Pacing = "lockstep"
		id++
		RunStreamScenario(e.Rec, &StreamScenario{ID: id, Fam: "c02", Log: l, Start: l.Boundaries()[0], ServerID: 7,
			Attempts: []AttemptPlan{a}, Note: "checksum-switched-at-rotation"})
	}
	// every casing of begin (2^5), commit (2^6), rollback (2^8)
	step := e.N(16, 1)
	for m := 0; m < 256; m += step {
		cfg := cfgs[m%len(cfgs)]
		l := &Log{Cfg: cfg}
		tables := []*Table{genTable(e.R, 100, gp)}
		ts := uint32(1600000000)
		f := &LogFile{Name: "mysql-bin.000001"}
		l.Files = []*LogFile{f}
		for _, k := range []string{"txcommit", "txrollback", "txxid"} {
			u := genUnit(e.R, k, tables, gp, &ts, cfg.Gtid)
			for _, ev := range u.Evs {
				switch ev.Cat {
				case "begin":
					ev.SQL = casing("begin", m%32)
				case "commit":
					ev.SQL = casing("commit", m%64)
				case "rollback":
					ev.SQL = casing("rollback", m)
				}
			}
			f.Units = append(f.Units, u)
		}
		l.Layout()
		a := defaultAttempt()
		a.Pacing = "lockstep"
		id++
		RunStreamScenario(e.Rec, &StreamScenario{ID: id, Fam: "c02", Log: l, Start: l.Boundaries()[0], ServerID: 7,
			Attempts: []AttemptPlan{a}, Note: "casing"})
	}
	n := e.N(40, 800)
	for i := 0; i < n; i++ {
		g := gp
		g.MaxUnits = e.N(10, 30)
		l := GenLog(e.R, cfgs[i%len(cfgs)], g, nil)
		a := defaultAttempt()
		if i%2 == 0 {
			a.Pacing = "lockstep"
		}
		id++
		RunStreamScenario(e.Rec, &StreamScenario{ID: id, Fam: "c02", Log: l, Start: l.Boundaries()[0], ServerID: 7,
			Attempts: []AttemptPlan{a}, Note: "random"})
	}
}

// modeC03: position labels. Histories with several files and 32-bit offsets; one full stream, then one
// extra real stream per delivered transaction started at its end label.
func modeC03(e *Env) {
	cfgs := allCfgs()
	gp := quickGP()
	gp.SimpleCols = true
	gp.MaxFiles = 4
	gp.MaxUnits = 8
	baseSets := [][]uint32{nil, {1<<31 - 300, 0, 1<<32 - 200000, 5}, {1<<32 - 100000, 1<<31 - 90, 1 << 31, 77},
		{4294000000, 2147483000, 3000000000, 1 << 24}}
	n := e.N(30, 400)
	for i := 0; i < n; i++ {
		l := GenLog(e.R, cfgs[i%len(cfgs)], gp, baseSets[i%len(baseSets)])
		if i%5 == 4 {
			// file switches directly followed by every kind of transaction: one opened by BEGIN, an autocommitted DDL, rows
			// without BEGIN, a statement
			g2 := gp
			l = logFromAbstractBases(e.R, cfgs[i%len(cfgs)], g2, []interface{}{"txxid", "rotate", "ddl", "txxid", "restart", "autorow", "stmtdml",
				"rotate", "txcommit", "restart", "stmtdml", "txrollback"}, baseSets[i%len(baseSets)])
		}
		if i%10 == 7 {
			// the stream starts under the empty file name (the master takes it as its first binlog): the labels carry the
			// empty name until the first rotation, and every one of them is a valid place to resume from
			l = logFromAbstractBases(e.R, cfgs[i%len(cfgs)], gp, []interface{}{"txxid", "ddl", "txcommit", "autorow", "stmtdml", "rotate", "txxid", "ddl"}, nil)
			l.Files[0].Name = ""
			l.Layout()
		}
		bs := l.Boundaries()
		start := bs[0]
		if i%4 == 3 && i%10 != 7 {
			start = bs[e.R.Intn(len(bs))]
		}
		RunStreamScenario(e.Rec, &StreamScenario{ID: i + 1, Fam: "c03", Log: l, Start: start, ServerID: 9,
			Attempts: []AttemptPlan{defaultAttempt()}, Resume: true, Note: "random"})
	}
}

// forcedNameScheme >= 0: logFromAbstract uses this file-naming scheme (see logFileName) instead of drawing one
var forcedNameScheme = -1

// unitsFromAbstract concretises a TLC-generated unit sequence (strings of C02's alphabet).
func logFromAbstract(r *rand.Rand, cfg WireCfg, gp GenParams, units []interface{}) *Log {
	return logFromAbstractBases(r, cfg, gp, units, nil)
}

// logFromAbstractBases: the same with per-file offset bases (offsets near 2^31 / 2^32).
func logFromAbstractBases(r *rand.Rand, cfg WireCfg, gp GenParams, units []interface{}, bases []uint32) *Log {
	l := &Log{Cfg: cfg}
	var tables []*Table
	for i := 0; i < 2; i++ {
		tables = append(tables, genTable(r, uint64(100+i), gp))
	}
	ts := uint32(1600000000)
	scheme := r.Intn(4)
	if forcedNameScheme >= 0 {
		scheme = forcedNameScheme
	}
	f := &LogFile{Name: logFileName(scheme, 0)}
	if len(bases) > 0 {
		f.Base = bases[0]
	}
	l.Files = append(l.Files, f)
	for _, ui := range units {
		k := ui.(string)
		switch k {
		case "rotate", "restart":
			u := genUnit(r, "rotate", tables, gp, &ts, cfg.Gtid)
			if k == "restart" {
				// the master was restarted: STOP event, and only the artificial ROTATE announces the next file
				u.Evs = []*Ev{{K: "unknown", TS: ts, Code: 3}}
			}
			f.Units = append(f.Units, u)
			f = &LogFile{Name: logFileName(scheme, len(l.Files))}
			if len(bases) > len(l.Files) {
				f.Base = bases[len(l.Files)]
			}
			l.Files = append(l.Files, f)
		case "gtid", "anongtid", "prevgtids", "heartbeat", "unknownev", "unknownstmt":
			u := &Unit{U: "ign"}
			var e *Ev
			switch k {
			case "gtid":
				e = &Ev{K: "gtid", TS: ts, Sid: vfSid(1), Gno: 9}
			case "anongtid":
				e = &Ev{K: "anongtid", TS: ts}
			case "prevgtids":
				e = &Ev{K: "prevgtids", TS: ts, Sid: vfSid(2), Gno: 5}
			case "heartbeat":
				e = &Ev{K: "heartbeat"}
			case "unknownev":
				e = &Ev{K: "unknown", TS: ts, Code: unknownCodes[r.Intn(len(unknownCodes))]}
			default:
				e = &Ev{K: "query", TS: ts, Cat: "unknown", DB: "d", SQL: "SAVEPOINT s"}
			}
			u.Evs = []*Ev{e}
			f.Units = append(f.Units, u)
		default:
			f.Units = append(f.Units, genUnit(r, k, tables, gp, &ts, cfg.Gtid))
		}
	}
	l.assignStatusVars(r)
	l.Layout()
	return l
}

func pad6(n int) string {
	s := "000000" + itoa(n)
	return s[len(s)-6:]
}

func itoa(n int) string {
	if n == 0 {
		return "0"
	}
	var b []byte
	for n > 0 {
		b = append([]byte{byte('0' + n%10)}, b...)
		n /= 10
	}
	return string(b)
}

// modeC01: end-to-end fidelity over generated histories x configurations x start positions.
func modeC01(e *Env) {
	cfgs := allCfgs()
	id := 0
	gp := quickGP()
	// (a) TLC-generated unit sequences, each under a configuration chosen round-robin (quick) or all (thorough)
	for i, s := range e.ReadScenarios() {
		units, _ := s["units"].([]interface{})
		use := []WireCfg{cfgs[i%len(cfgs)]}
		if e.Thorough() {
			use = cfgs
		}
		for _, cfg := range use {
			l := logFromAbstract(e.R, cfg, gp, units)
			id++
			sc := &StreamScenario{ID: id, Fam: "c01", Log: l, Start: l.Boundaries()[0], ServerID: 4242,
				Attempts: []AttemptPlan{defaultAttempt()}, Note: "tlc"}
			RunStreamScenario(e.Rec, sc)
		}
	}
	// (a2) long histories over hundreds of tables: every transaction announces tables under ids never seen before, one or two
	// per statement (TABLE_MAP a, TABLE_MAP b, ROWS a, ROWS b), so that whatever the library keeps per table id grows
	for v := 0; v < 2; v++ {
		cfg := cfgs[(v*5+int(e.Seed))%len(cfgs)]
		l := &Log{Cfg: cfg}
		f := &LogFile{Name: "mysql-bin.000001"}
		l.Files = []*LogFile{f}
		ts := uint32(1600000000)
		g := gp
		g.SimpleCols, g.MaxCols, g.MaxRows = true, 2, 1
		nextID := uint64(1000)
		newTable := func() *Table {
			nextID++
			t := genTable(e.R, nextID, g)
			t.Name = "t" + itoa(int(nextID))
			return t
		}
		ntx := e.N(330, 700)
		for x := 0; x < ntx; x++ {
			u := &Unit{U: "txxid", Evs: []*Ev{{K: "query", TS: ts, Cat: "begin", DB: "d", SQL: "BEGIN"}}}
			a := newTable()
			if x == 0 && v == 1 {
				// (one single-table transaction first: the number of ids seen before a two-table statement is odd / even)
				u.Evs = append(u.Evs, &Ev{K: "tablemap", TS: ts, Tbl: a}, genRowsEv(e.R, "write", a, g, ts))
			} else {
				b := newTable()
				u.Evs = append(u.Evs, &Ev{K: "tablemap", TS: ts, Tbl: a}, &Ev{K: "tablemap", TS: ts, Tbl: b},
					genRowsEv(e.R, "write", a, g, ts), genRowsEv(e.R, pickS(e.R, "write", "update", "delete"), b, g, ts))
			}
			u.Evs = append(u.Evs, &Ev{K: "xid", TS: ts})
			f.Units = append(f.Units, u)
			ts++
		}
		l.Layout()
		id++
		RunStreamScenario(e.Rec, &StreamScenario{ID: id, Fam: "c01", Log: l, Start: l.Boundaries()[0], ServerID: 4242,
			Attempts: []AttemptPlan{defaultAttempt()}, Note: "many-tables"})
	}
	// rows events with many rows (a multi-row statement is split over events of about 8 KiB: tens to hundreds of rows each):
	// the images of every row, in order, for write, update and delete
	for v, nrows := range []int{11, 17, 33, 130} {
		if !e.Thorough() && (v+int(e.Seed))%2 == 1 {
			continue
		}
		cfg := cfgs[(v*3+int(e.Seed))%len(cfgs)]
		l := &Log{Cfg: cfg}
		f := &LogFile{Name: "mysql-bin.000001"}
		l.Files = []*LogFile{f}
		g := gp
		g.SimpleCols, g.MaxCols, g.MaxRows = true, 3, 1
		t := genTable(e.R, 77, g)
		u := &Unit{U: "txxid", Evs: []*Ev{{K: "query", TS: 1600000000, Cat: "begin", DB: "d", SQL: "BEGIN"}, {K: "tablemap", TS: 1600000000, Tbl: t}}}
		for _, kind := range []string{"update", "write", "delete"} {
			g.ExactRows = nrows
			u.Evs = append(u.Evs, genRowsEv(e.R, kind, t, g, 1600000000))
		}
		u.Evs = append(u.Evs, &Ev{K: "xid", TS: 1600000000})
		f.Units = append(f.Units, u)
		l.Layout()
		id++
		RunStreamScenario(e.Rec, &StreamScenario{ID: id, Fam: "c01", Log: l, Start: l.Boundaries()[0], ServerID: 4242,
			Attempts: []AttemptPlan{defaultAttempt()}, Note: "many-rows"})
	}
	// (b) random wide histories, every configuration, random valid start positions
	n := e.N(36, 600)
	for i := 0; i < n; i++ {
		cfg := cfgs[i%len(cfgs)]
		g := gp
		if i%6 == 5 {
			// wider tables: more than 8 columns with partial images (bitmap bytes of table width and image width differ)
			g.MaxCols = 20
			g.MaxUnits = 4
			if i%12 == 5 {
				g.ExactCols = 9 + e.R.Intn(12)
				g.SparseImages = true
				g.MaxUnits = 8
			}
		}
		if i%6 == 2 {
			// table widths at the byte boundaries of the presence / NULL bitmaps
			g.ExactCols = []int{8, 16, 24, 7, 9, 32}[(i/6)%6]
			g.MaxUnits = 8
		}
		if e.Thorough() && i%5 == 0 {
			g = GenParams{MaxUnits: 40, MaxStmts: 6, MaxTables: 8, MaxRows: 20, MaxCols: 40, MaxFiles: 4, MaxPayload: 300}
		}
		l := GenLog(e.R, cfg, g, nil)
		bs := l.Boundaries()
		start := bs[0]
		if i%3 != 0 && g.ExactCols == 0 {
			start = bs[e.R.Intn(len(bs))]
		}
		a := defaultAttempt()
		if i%2 == 1 {
			a.Pacing = "lockstep"
		}
		if i%4 == 2 && g.ExactCols == 0 {
			a.End = "cancel"
		}
		id++
		sc := &StreamScenario{ID: id, Fam: "c01", Log: l, Start: start, ServerID: uint32(1 + e.R.Intn(1<<30)),
			Attempts: []AttemptPlan{a}, Note: "random"}
		RunStreamScenario(e.Rec, sc)
	}
}

// ---- fault families (C04, C05, C06, C07, C17) -------------------------------------------------

var transportFaults = []string{"close", "reset", "short", "outofseq", "err", "eof"}

// nCommitsBefore counts the committing units whose last event is among the first i packets served from start.
func nCommitsBefore(l *Log, start Pos, i int) int {
	evs, _ := l.Served(start)
	last := map[*Ev]bool{}
	for _, f := range l.Files {
		for _, u := range f.Units {
			switch u.U {
			case "txxid", "txcommit", "txrollback", "ddl", "autorow", "stmtdml", "xidalone", "commitalone":
				last[u.Evs[len(u.Evs)-1]] = true
			}
		}
	}
	n := 0
	for j, e := range evs {
		if j >= i {
			break
		}
		if last[e] {
			n++
		}
	}
	return n
}

// servedInfo returns the number of packets served from start and the number of committing units among them.
func servedInfo(l *Log, start Pos) (npk, ntx int) {
	evs, _ := l.Served(start)
	return len(evs), nCommitsBefore(l, start, len(evs))
}

// firstTable returns some table announced in the log ("" if none).
func firstTable(l *Log) string {
	for k := range l.Tables() {
		return k
	}
	return ""
}

// faultPlans enumerates single-fault attempts for a log served from start: every fault kind of C04's
// quantifier at every packet / transaction index.
func faultPlans(l *Log, start Pos, pacing string, stride int, r *rand.Rand) []AttemptPlan {
	npk, ntx := servedInfo(l, start)
	var out []AttemptPlan
	base := func() AttemptPlan { a := defaultAttempt(); a.Pacing = pacing; return a }
	off := 0
	if stride > 1 {
		off = r.Intn(stride)
	}
	for i := off; i <= npk; i += stride {
		for _, k := range transportFaults {
			a := base()
			a.Fault = &Fault{Kind: k, At: i, Code: uint16(1000 + r.Intn(3000)), Msg: "verif master error " + itoa(r.Intn(1000))}
			out = append(out, a)
		}
		a := base()
		a.End = "idle"
		a.CancelAtPkt = i
		if i == npk {
			a.CancelAtPkt = npk - 1
		}
		out = append(out, a)
		if i >= 2 {
			for _, k := range []string{"rand", "intvar", "rowsquery", "invalid"} {
				a := base()
				a.Inject = &Inject{Kind: k, At: i}
				if k == "invalid" {
					a.Inject.Raw = invalidPacket(r)
				}
				out = append(out, a)
			}
		}
	}
	for k := 0; k < ntx; k++ {
		a := base()
		a.HandlerErrAt = k
		out = append(out, a)
		for _, kind := range []string{"canceled", "deadline", "eof", "wrapped"} {
			a2 := base()
			a2.HandlerErrAt = k
			a2.HandlerErrKind = kind
			out = append(out, a2)
		}
		b := base()
		b.End = "idle"
		b.CancelAtTx = k
		out = append(out, b)
		// the caller cancels while the handler of transaction k is still busy; the handler finishes its work and accepts
		c := base()
		c.End = "idle"
		c.CancelAtTx = k
		c.ReleaseDelayMs = 30
		out = append(out, c)
	}
	for name := range l.Tables() {
		a := base()
		a.MapperFault = "err:" + name
		out = append(out, a)
		b := base()
		b.MapperFault = "mismatch:" + name
		out = append(out, b)
	}
	return out
}

// invalidPacketKinds: one packet of every malformed kind - empty, shorter than five bytes, shorter than a header, truncated and
// over-long events of the types the parser looks at first (ROTATE, FORMAT_DESCRIPTION, XID), length fields 0 and 2^32-1.
func invalidPacketKinds(r *rand.Rand) [][]byte {
	var out [][]byte
	xid := mkEvent(1600000000, tXid, 1, 500, 0, le64(99), false)
	rot := mkEvent(0, tRotate, 1, 0, 0x20, rotateBody(4, "mysql-bin.000009"), false)
	fde := mkEvent(1600000000, tFormatDesc, 1, 0, 0, fdeBody(allCfgs()[0], 1600000000, 0), true)
	out = append(out, []byte{}, xid[:1+r.Intn(4)], rot[:1+r.Intn(4)], xid[:5+r.Intn(14)], rot[:5+r.Intn(14)])
	for _, ev := range [][]byte{xid, rot, fde} {
		out = append(out, ev[:19+r.Intn(len(ev)-19)], append(append([]byte{}, ev...), randBytes(r, 1+r.Intn(9))...))
	}
	for _, lf := range [][4]byte{{0, 0, 0, 0}, {0xff, 0xff, 0xff, 0xff}} {
		b := append([]byte{}, rot...)
		b[9], b[10], b[11], b[12] = lf[0], lf[1], lf[2], lf[3]
		out = append(out, b)
	}
	g := randBytes(r, 5+r.Intn(40))
	g[4] = tRotate // garbage that claims to be a ROTATE event
	return append(out, g)
}

// invalidPacketsOfEveryType: the gate applies to every event before anything else looks at it, whatever type the packet
// claims to have: for every type code the parser or the connection layer knows (and a few nobody knows), an event of that
// type cut short by one byte, the same event with bytes appended, and garbage that carries the code in its type byte.
func invalidPacketsOfEveryType(r *rand.Rand) [][]byte {
	var out [][]byte
	for _, typ := range []byte{0, 1, 2, 3, 4, 5, 13, 14, 15, 16, 19, 23, 24, 25, 26, 27, 29, 30, 31, 32, 33, 34, 35, 36, 38, 39, 40, 160, 161, 162, 163, 164, 200, 255} {
		ev := mkEvent(1600000000, typ, 1, 700, 0, randBytes(r, 1+r.Intn(30)), false)
		out = append(out, append([]byte(nil), ev[:len(ev)-1]...), append(append([]byte{}, ev...), randBytes(r, 1+r.Intn(5))...))
		g := randBytes(r, 5+r.Intn(30))
		g[4] = typ
		if len(g) >= 19 && int(binary.LittleEndian.Uint32(g[9:13])) == len(g) {
			g[9] ^= 0x40
		}
		out = append(out, g)
	}
	return out
}

// invalidPacket builds a packet the validity gate must reject: truncated, over-long, or garbage.
func invalidPacket(r *rand.Rand) []byte {
	ev := mkEvent(1600000000, tXid, 1, 500, 0, le64(99), false)
	switch r.Intn(6) {
	case 0:
		return ev[:r.Intn(19)] // shorter than a header
	case 1:
		return ev[:19+r.Intn(len(ev)-19)] // truncated body: length field too large
	case 2:
		return append(ev, randBytes(r, 1+r.Intn(9))...) // over-long: length field too small
	case 3:
		return randBytes(r, r.Intn(64))
	case 4:
		b := append([]byte{}, ev...)
		b[9], b[10], b[11], b[12] = 0, 0, 0, 0 // length 0
		return b
	default:
		b := append([]byte{}, ev...)
		b[9], b[10], b[11], b[12] = 0xff, 0xff, 0xff, 0xff
		return b
	}
}

func smallGP() GenParams {
	return GenParams{MaxUnits: 4, MaxStmts: 2, MaxTables: 2, MaxRows: 2, MaxCols: 3, MaxFiles: 2, MaxPayload: 20, SimpleCols: true}
}

func init() {
	modes["c04"] = modeC04
	modes["c07"] = modeC07
	modes["c17s"] = modeC17Stream
}

// modeC04: for each history, every single fault (kind x index) as a failed first attempt followed by a clean
// attempt on the SAME streamer; in the thorough tier additionally random sequences of up to 3 failed attempts.
func modeC04(e *Env) {
	cfgs := allCfgs()
	id := 0
	nlogs := e.N(3, 40)
	for li := 0; li < nlogs; li++ {
		gp := smallGP()
		if li%3 == 2 {
			gp.MaxUnits = 6
		}
		cfg := cfgs[e.R.Intn(len(cfgs))]
		l := GenLog(e.R, cfg, gp, nil)
		if li%3 == 0 {
			// a long first file and a short second one: a failure late in the first file makes the next attempt start from
			// a large offset and cross into a file whose offsets start again at 4
			g2 := gp
			g2.SimpleCols = true
			l = logFromAbstract(e.R, cfg, g2, []interface{}{"txxid", "txxid", "txcommit", "autorow", "rotate", "txxid", "ddl", "restart", "txxid", "autorow"})
		}
		if li%3 == 1 {
			// an empty file name is a valid position too (the master takes it as its first binlog): the library keeps
			// the name it was given until a real rotation; a single file with several transactions, so that every retry
			// still happens under the empty name
			g2 := gp
			g2.SimpleCols = true
			l = logFromAbstract(e.R, cfg, g2, []interface{}{"txxid", "ddl", "txcommit", "autorow", "txxid", "stmtdml"})
			l.Files[0].Name = ""
			l.Layout()
		}
		start := l.Boundaries()[0]
		if _, ntx := servedInfo(l, start); ntx == 0 {
			li--
			continue
		}
		pacing := "burst"
		if li%2 == 1 {
			pacing = "lockstep"
		}
		stride := e.N(2, 1)
		plans := faultPlans(l, start, pacing, stride, e.R)
		for _, fp := range plans {
			id++
			sid := uint32(11)
			if id%9 == 4 {
				sid = l.Cfg.ServerID // the replica registers with the id the events carry (chained masters, a re-used id): events are events
			}
			RunStreamScenario(e.Rec, &StreamScenario{ID: id, Fam: "c04", Log: l, Start: start, ServerID: sid,
				Attempts: []AttemptPlan{fp, defaultAttempt()}, Note: "single"})
		}
		// a failure after some progress, then an attempt that ends before its dump starts (master unreachable, handshake
		// refused, checksum announcement rejected, connection lost right after it), then a clean one
		for ci, cf := range []string{"handshake_close", "handshake_err", "set_err", "set_then_reset", "dead"} {
			if !e.Thorough() && (li+ci)%2 == 1 {
				continue
			}
			c := defaultAttempt()
			if cf == "dead" {
				c.Dead = true
			} else {
				c.ConnFault = cf
			}
			id++
			RunStreamScenario(e.Rec, &StreamScenario{ID: id, Fam: "c04", Log: l, Start: start, ServerID: 11,
				Attempts: []AttemptPlan{plans[e.R.Intn(len(plans))], c, defaultAttempt()}, Note: "connect-failure-between"})
		}
		// sequences of up to 3 failed attempts, then a clean one
		nseq := e.N(6, 60)
		for s := 0; s < nseq; s++ {
			var atts []AttemptPlan
			nf := 1 + e.R.Intn(3)
			for j := 0; j < nf; j++ {
				atts = append(atts, plans[e.R.Intn(len(plans))])
			}
			atts = append(atts, defaultAttempt())
			id++
			RunStreamScenario(e.Rec, &StreamScenario{ID: id, Fam: "c04", Log: l, Start: start, ServerID: 11,
				Attempts: atts, Note: "sequence"})
		}
	}
}

// modeC07: handshake. (a) arbitrary server ids / file names / offsets against a master that ends the dump at once
// (no log needed), several attempts and explicit re-positioning; (b) histories with transport faults, where later
// attempts must ask for the stored resume position.
func modeC07(e *Env) {
	id := 0
	sids := []uint32{1, 2, 1<<31 - 1, 1 << 31, 1<<31 + 1, 1<<32 - 1, 0, 65536}
	offs := []uint32{4, 5, 255, 256, 65535, 65536, 1<<31 - 1, 1 << 31, 1<<32 - 1, 1<<32 - 2}
	names := []string{"", "a", "mysql-bin.000001", "b.1", "x.y.z.000099", "bin\xc3\xa9\xe4\xb8\xad.000002", "with space.01",
		string(bytesRepeat('n', 255)), string(bytesRepeat('q', 100)) + ".000001"}
	n := e.N(40, 600)
	for i := 0; i < n; i++ {
		sid := sids[e.R.Intn(len(sids))]
		off := offs[e.R.Intn(len(offs))]
		name := names[e.R.Intn(len(names))]
		if i%3 == 0 {
			sid, off = e.R.Uint32(), e.R.Uint32()
			if off < 4 {
				off = 4
			}
			name = randName(e.R, 1+e.R.Intn(40)) + "." + randName(e.R, 1+e.R.Intn(6))
		}
		l := &Log{Cfg: allCfgs()[0]}
		nat := 1 + e.R.Intn(3)
		var atts []AttemptPlan
		for j := 0; j < nat; j++ {
			a := defaultAttempt()
			a.Fault = &Fault{Kind: "eof", At: 0}
			a.Deadline = (i+j)%3 == 1 // the caller's context may carry a deadline
			atts = append(atts, a)
		}
		if i%5 == 2 {
			f := defaultAttempt()
			f.ConnFault = pickS(e.R, "set_then_reset", "set_err", "dump_close", "handshake_close")
			atts = append([]AttemptPlan{f}, atts...)
		}
		id++
		sc := &StreamScenario{ID: id, Fam: "c07", Log: l, Start: Pos{name, off}, ServerID: sid, Attempts: atts, Note: "bare"}
		if i%4 == 1 && nat > 1 {
			sc.SetPosBefore = map[int]Pos{1: {names[e.R.Intn(len(names))], offs[e.R.Intn(len(offs))]}}
		}
		RunStreamScenario(e.Rec, sc)
	}
	// file names that do not sort in the order the master switches through them (sequence rollover, numbering restarted, base
	// name changed): an attempt that ends right after a rotation and in the file after it, then a clean one - whatever the seed
	for scheme := 1; scheme <= 3; scheme++ {
		forcedNameScheme = scheme
		l := logFromAbstract(e.R, allCfgs()[e.R.Intn(len(allCfgs()))], smallGP(), []interface{}{"txxid", "ddl", "rotate", "txxid", "autorow", "rotate", "ddl", "txxid"})
		forcedNameScheme = -1
		start := l.Boundaries()[0]
		evs, _ := l.Served(start)
		for at, ev := range evs {
			if ev.K != "rotate" || ev.Fake {
				continue
			}
			for _, d := range []int{1, 4} {
				a := defaultAttempt()
				a.Fault = &Fault{Kind: "close", At: at + d}
				id++
				RunStreamScenario(e.Rec, &StreamScenario{ID: id, Fam: "c07", Log: l, Start: start, ServerID: 77, Attempts: []AttemptPlan{a, defaultAttempt(), defaultAttempt()}, Note: "names-that-do-not-sort"})
			}
		}
	}
	// (b) resumed attempts after transport faults and cancels
	cfgs := allCfgs()
	m := e.N(30, 300)
	for i := 0; i < m; i++ {
		l := GenLog(e.R, cfgs[e.R.Intn(len(cfgs))], smallGP(), nil)
		start := l.Boundaries()[0]
		npk, _ := servedInfo(l, start)
		var atts []AttemptPlan
		all := faultPlans(l, start, "burst", 1, e.R)
		for j := 0; j < 1+e.R.Intn(3); j++ {
			a := defaultAttempt()
			switch e.R.Intn(4) {
			case 0:
				// any fault kind of the session model (handler error, mapper faults, injected events, cancels, transport)
				a = all[e.R.Intn(len(all))]
			case 1:
				// the master rejects SET @master_binlog_checksum: no dump request may follow; or the connection dies
				// right after the SET so that writing the dump request fails
				a.ConnFault = pickS(e.R, "set_err", "set_then_reset")
			default:
				a.Fault = &Fault{Kind: transportFaults[e.R.Intn(len(transportFaults))], At: e.R.Intn(npk + 1), Code: 1236, Msg: "x"}
			}
			if e.R.Intn(2) == 0 {
				a.Pacing = "lockstep"
			}
			atts = append(atts, a)
		}
		atts = append(atts, defaultAttempt())
		id++
		RunStreamScenario(e.Rec, &StreamScenario{ID: id, Fam: "c07", Log: l, Start: start, ServerID: sids[e.R.Intn(len(sids))],
			Attempts: atts, Note: "history"})
	}
}

func bytesRepeat(c byte, n int) []byte {
	b := make([]byte, n)
	for i := range b {
		b[i] = c
	}
	return b
}

// modeC17Stream: a malformed packet injected at every index of a history; then a clean attempt.
func modeC17Stream(e *Env) {
	cfgs := allCfgs()
	id := 0
	nlogs := e.N(4, 40)
	for li := 0; li < nlogs; li++ {
		l := GenLog(e.R, cfgs[e.R.Intn(len(cfgs))], smallGP(), nil)
		start := l.Boundaries()[0]
		npk, _ := servedInfo(l, start)
		for i := 0; i <= npk; i++ {
			// before the format description is known (indices 0 and 1) and right after it (2) every kind of malformed packet
			// is tried; elsewhere a few random ones
			var raws [][]byte
			if i <= 2 {
				raws = invalidPacketKinds(e.R)
				if i == 2 && li == 0 {
					// a packet of every length below a full header (what an error path may still want to read from it)
					xid := mkEvent(1600000000, tXid, 1, 500, 0, le64(99), false)
					for n := 0; n <= 18; n++ {
						raws = append(raws, append([]byte(nil), xid[:n]...))
					}
				}
				if i == 2 && (li == 0 || e.Thorough()) {
					raws = append(raws, invalidPacketsOfEveryType(e.R)...)
				}
			} else {
				for rep := 0; rep < e.N(2, 6); rep++ {
					raws = append(raws, invalidPacket(e.R))
				}
			}
			for rep, raw := range raws {
				a := defaultAttempt()
				if rep%2 == 1 {
					a.Pacing = "lockstep"
				}
				a.Inject = &Inject{Kind: "invalid", At: i, Raw: raw}
				id++
				RunStreamScenario(e.Rec, &StreamScenario{ID: id, Fam: "c17", Log: l, Start: start, ServerID: 5,
					Attempts: []AttemptPlan{a, defaultAttempt()}, Note: "inject"})
			}
		}
	}
}

// ---- C05 / C06: termination, leftovers, reported reasons ---------------------------------------

func init() {
	modes["c05"] = modeC05
	modes["c06"] = modeC05
	modes["c08"] = modeC08
}

// stopPlans: every stop cause x stop point x reader state (waiting for the network = lock-step; holding an
// event the parser has not taken = burst with the parser kept busy) x handler fast / blocked-at-stop.
func stopPlans(l *Log, start Pos, r *rand.Rand, stride int) []AttemptPlan {
	var out []AttemptPlan
	for _, pacing := range []string{"burst", "lockstep"} {
		out = append(out, faultPlans(l, start, pacing, stride, r)...)
	}
	npk, ntx := servedInfo(l, start)
	// handler blocked at the stop: the handler of transaction k blocks until the cancel fires
	for k := 0; k < ntx; k++ {
		for _, i := range []int{npk - 1, r.Intn(npk)} {
			a := defaultAttempt()
			a.End = "idle"
			a.HandlerBlock = k
			a.CancelAtPkt = i
			out = append(out, a)
			// the handler keeps running for a while after the cancellation: Stream must not return before it does
			b := a
			b.ReleaseDelayMs = 60
			out = append(out, b)
		}
		// the context is cancelled while handler k is running (from inside it) and the handler goes on for a while
		for _, pacing := range []string{"burst", "lockstep"} {
			c := defaultAttempt()
			c.Pacing = pacing
			c.End = "idle"
			c.CancelAtTx = k
			c.ReleaseDelayMs = 60
			out = append(out, c)
		}
	}
	// the master falls silent in the middle of a transaction (after BEGIN, before the commit event) and the caller cancels
	// while the reader waits for the network: nothing more will ever arrive, Stream must return all the same
	evs, _ := l.Served(start)
	var inside []int
	open := false
	for i, ev := range evs {
		switch {
		case ev.K == "query" && ev.Cat == "begin":
			open = true
		case ev.K == "xid", ev.K == "query" && (ev.Cat == "commit" || ev.Cat == "rollback"):
			open = false
		}
		if open {
			inside = append(inside, i)
		}
	}
	if len(inside) > 4 && stride > 1 {
		inside = []int{inside[0], inside[1+r.Intn(len(inside)-2)], inside[1+r.Intn(len(inside)-2)], inside[len(inside)-1]}
	}
	for n, i := range inside {
		a := defaultAttempt()
		if n%2 == 1 {
			a.Pacing = "lockstep"
		}
		a.End = "idle"
		a.StallAfter = i
		out = append(out, a)
		// ... and the master ending the dump at the same place - an ERR packet, a lost connection - with a transaction open
		b := defaultAttempt()
		b.Pacing = a.Pacing
		b.Fault = &Fault{Kind: []string{"err", "close", "reset"}[n%3], At: i + 1, Code: 1236, Msg: "inside a transaction " + itoa(i)}
		out = append(out, b)
	}
	// two stop causes in one session: the connection is lost on its own while the handler of transaction k is still busy, and
	// then the handler fails / the caller cancels
	for k := 0; k < ntx; k++ {
		// the connection is lost right after the commit event of transaction k: the reader runs into the lost connection
		// while the handler of k is still busy
		at := npk
		for i := 0; i <= npk; i++ {
			if nCommitsBefore(l, start, i) == k+1 {
				at = i
				break
			}
		}
		for _, fk := range []string{"close", "reset"} {
			a := defaultAttempt()
			a.Fault = &Fault{Kind: fk, At: at}
			a.HandlerBlock = k
			a.HandlerBlockMs = 40
			a.HandlerErrAt = k
			out = append(out, a)
			b := defaultAttempt()
			b.End = "idle"
			b.Fault = &Fault{Kind: fk, At: at}
			b.CancelAtTx = k
			b.ReleaseDelayMs = 40
			out = append(out, b)
		}
	}
	// a failure that coincides with cancellation: the handler (or the table mapper) cancels the context - to stop the rest
	// of the application - and then returns its error; the failure must still be reported
	for k := 0; k < ntx; k++ {
		a := defaultAttempt()
		a.HandlerErrAt = k
		a.CancelAtTx = k
		out = append(out, a)
	}
	for name := range l.Tables() {
		a := defaultAttempt()
		a.MapperFault = "err:" + name
		a.MapperCancels = true
		out = append(out, a)
		b := defaultAttempt()
		b.MapperFault = "mismatch:" + name
		b.MapperCancels = true
		out = append(out, b)
	}
	// the caller cancels its context after Stream returned (e.g. a deferred cancel) and then asks Error()
	for _, k := range transportFaults {
		a := defaultAttempt()
		a.Fault = &Fault{Kind: k, At: r.Intn(npk + 1), Code: 1999, Msg: "late cancel " + itoa(r.Intn(100))}
		a.CancelAfterReturn = true
		out = append(out, a)
	}
	// a slow log sink delays the reader between reading the terminal packet and publishing its reason
	for _, k := range transportFaults {
		for _, pacing := range []string{"burst", "lockstep"} {
			a := defaultAttempt()
			a.Pacing = pacing
			a.Fault = &Fault{Kind: k, At: r.Intn(npk + 1), Code: 1888, Msg: "slow sink " + itoa(r.Intn(100))}
			a.LogDelayMs = 40
			out = append(out, a)
		}
	}
	// connection-stage failures
	for _, cf := range []string{"handshake_close", "handshake_err", "set_err", "set_then_reset", "dump_close", "dump_err"} {
		a := defaultAttempt()
		a.ConnFault = cf
		out = append(out, a)
	}
	// after everything else was delivered: a well-formed UPDATE with a cell in its before image that cannot be decoded
	{
		a := defaultAttempt()
		a.Inject = &Inject{Kind: "badcell", At: npk}
		out = append(out, a)
	}
	// the first connection of the attempt dies before the checksum announcement is answered; should the library dial again within
	// the same Stream call, that connection is healthy and the dump ends with a master error
	{
		a := defaultAttempt()
		a.ConnFault = "set_drop_once"
		a.Fault = &Fault{Kind: "err", At: npk, Code: 1236, Msg: "after a second dial"}
		out = append(out, a)
	}
	// the master ends the dump with an ERR packet carrying a code that drivers, proxies and replication code bases are known
	// to treat specially (client-side CR_* numbers relayed by a proxy, "connection killed", "server shutdown", the extremes)
	for n, code := range notableErrCodes {
		a := defaultAttempt()
		if n%2 == 1 {
			a.Pacing = "lockstep"
		}
		a.Fault = &Fault{Kind: "err", At: r.Intn(npk + 1), Code: code, Msg: "notable code " + itoa(int(code))}
		out = append(out, a)
	}
	d := defaultAttempt()
	d.Dead = true
	out = append(out, d)
	return out
}

var notableErrCodes = []uint16{0, 1, 1040, 1045, 1053, 1105, 1152, 1158, 1159, 1160, 1161, 1205, 1213, 1236, 1317, 1927, 2000, 2002, 2003, 2006, 2013, 2014, 2027, 2055, 3024, 65535}

func modeC05(e *Env) {
	cfgs := allCfgs()
	id := 0
	nlogs := e.N(2, 12)
	reps := e.N(1, 2)
	for li := 0; li < nlogs; li++ {
		gp := smallGP()
		l := GenLog(e.R, cfgs[e.R.Intn(len(cfgs))], gp, nil)
		if li == 0 {
			// whatever the seed: a history with transactions opened by BEGIN (stop points strictly inside them exist)
			g2 := gp
			g2.MaxStmts = 2
			l = logFromAbstract(e.R, cfgs[e.R.Intn(len(cfgs))], g2, []interface{}{"txxid", "ddl", "txcommit", "autorow", "txxid"})
		}
		start := l.Boundaries()[0]
		if _, ntx := servedInfo(l, start); ntx == 0 {
			li--
			continue
		}
		plans := stopPlans(l, start, e.R, e.N(3, 1))
		for _, p := range plans {
			for rep := 0; rep < reps; rep++ {
				id++
				atts := []AttemptPlan{p, defaultAttempt()}
				if id%5 == 0 {
					atts = []AttemptPlan{defaultAttempt(), p, defaultAttempt()}
				}
				// schedule fuzzing: seeded pseudo-random delays at every hook point of the library (reader, parser,
				// handler call, close), so that the same stop cause is seen under many interleavings
				if rep > 0 || id%2 == 0 {
					for k := range atts {
						atts[k].HookFuzz = uint64(e.Seed)*7919 + uint64(id)*104729 + uint64(rep)*31 + 1
					}
				}
				// implementation-level trace of the hook points for a third of the scenarios (conformance of MC_Conn's
				// control structure, monitor DRIFT.conn)
				if id%3 == 0 {
					for k := range atts {
						atts[k].HookTrace = true
					}
				}
				if id%4 == 1 && p.Fault != nil {
					// the caller retries after its handler failed WITHOUT asking Error() in between (Stream already
					// returned the error), and the retry is ended by the fault
					h := defaultAttempt()
					h.HandlerErrAt = 0
					h.SkipError = true
					atts = []AttemptPlan{h, p, defaultAttempt()}
				}
				if id%7 == 3 {
					for k := range atts {
						atts[k].Deadline = true // the caller's context may carry a (far) deadline
					}
				}
				if id%5 == 2 {
					for k := range atts {
						atts[k].Expire = true // wherever the plan cancels, the context ends by its deadline instead
						atts[k].HookTrace = false // (MC_Conn models cancellation; what Error() says after a passed deadline is not in it)
					}
				}
				if id%2 == 1 {
					// half of the scenarios look for goroutines left behind before Error() is called for the first time
					for k := range atts {
						atts[k].LeakFirst = true
					}
				}
				RunStreamScenario(e.Rec, &StreamScenario{ID: id, Fam: "c05", Log: l, Start: start, ServerID: 13, Attempts: atts, Note: "stop"})
			}
		}
	}
}

// modeC08: stability of delivered data. Events sized around the driver's 4096-byte receive buffer, later packets
// arriving before / after the handler returns, handlers that overwrite every delivered byte slice.
func modeC08(e *Env) {
	cfgs := allCfgs()
	id := 0
	n := e.N(24, 300)
	for i := 0; i < n; i++ {
		gp := GenParams{MaxUnits: 6, MaxStmts: 3, MaxTables: 3, MaxRows: 3, MaxCols: 6, MaxFiles: 2, MaxPayload: 40}
		switch i % 4 {
		case 1:
			gp.MaxPayload = 1400 // rows events around 4096 bytes
		case 2:
			gp.MaxPayload = 3000
			gp.MaxRows = 40
		}
		l := GenLog(e.R, cfgs[e.R.Intn(len(cfgs))], gp, nil)
		a := defaultAttempt()
		a.Scribble = i%2 == 0
		if i%4 == 2 {
			a.Scribble, a.ScribbleLate = false, true // everything is kept untouched until the stream has ended, then overwritten
		}
		if i%3 == 0 {
			a.Pacing = "lockstep"
		} else {
			// later packets arrive while the handler of the first transaction is still running
			a.HandlerBlock = 0
			a.HandlerBlockMs = 30
		}
		id++
		sc := &StreamScenario{ID: id, Fam: "c08", Log: l, Start: l.Boundaries()[0], ServerID: 21,
			Attempts: []AttemptPlan{a}, Note: "stability"}
		if i%2 == 1 || i%8 == 0 {
			// "after the stream has ended": the same Streamer streams the history again over a new connection, from another
			// boundary (so that nothing arrives at the place it arrived at the first time), and the handler scribbles again,
			// before everything delivered so far is re-read
			b := defaultAttempt()
			b.Scribble = a.Scribble
			sc.Attempts = append(sc.Attempts, b)
			bs := l.Boundaries()
			sc.SetPosBefore = map[int]Pos{1: bs[(1+e.R.Intn(len(bs)))%len(bs)]}
			if len(bs) > 2 {
				sc.SetPosBefore[1] = bs[1+e.R.Intn(len(bs)-2)]
			}
		}
		RunStreamScenario(e.Rec, sc)
	}
	// repeated values of every kind (zero values and others): values an implementation may be tempted to hand out from a
	// shared constant or from a memo of what it decoded last
	for i := 0; i < e.N(12, 120); i++ {
		var cols []Col
		for c := 0; c < 2+e.R.Intn(5); c++ {
			cols = append(cols, randomCol(e.R))
		}
		id++
		repeatedValues(e, id, cfgs[e.R.Intn(len(cfgs))], cols, "repeated-values")
	}
	// events around the driver's receive buffer (4096 bytes, grown on demand and re-used): one transaction with a value of a
	// given size, then small transactions whose packets arrive later through the same buffer - whatever the seed
	for i, size := range []int{3000, 4000, 4060, 4096, 4200, 5000, 9000, 20000, 70000} {
		if !e.Thorough() && (i+int(e.Seed))%2 == 1 && size != 5000 {
			continue
		}
		cfg := cfgs[e.R.Intn(len(cfgs))]
		l := &Log{Cfg: cfg}
		col := colBlob(3)
		col.Name, col.Nullable = "body", true
		idc := colInt("long", false)
		idc.Name, idc.Nullable = "id", true
		t := &Table{ID: 310, DB: "dz", Name: "tbig", Cols: []Col{idc, col}}
		f := &LogFile{Name: "mysql-bin.000001"}
		l.Files = []*LogFile{f}
		none := []Cell{{St: "absent"}, {St: "absent"}}
		for u, sz := range []int{size, 30, 10, 50, 20} {
			payload := randBytes(e.R, sz)
			body := append([]byte{byte(sz), byte(sz >> 8), byte(sz >> 16)}, payload...)
			ev := &Ev{K: "write", TS: 1600000000, Tbl: t, Rows: []RowPair{{B: none, A: []Cell{{St: "val", Bytes: []byte{byte(u), 0, 0, 0}}, {St: "val", Bytes: body}}}}}
			f.Units = append(f.Units, &Unit{U: "autorow", Evs: []*Ev{{K: "tablemap", TS: 1600000000, Tbl: t}, ev}})
		}
		l.Layout()
		a := defaultAttempt()
		a.Scribble = i%3 == 1
		a.Pacing = "lockstep" // later packets arrive in later reads
		id++
		RunStreamScenario(e.Rec, &StreamScenario{ID: id, Fam: "c08", Log: l, Start: l.Boundaries()[0], ServerID: 21,
			Attempts: []AttemptPlan{a}, Note: "around-the-receive-buffer"})
	}
	// MariaDB-shaped transactions (no BEGIN: every rows event commits on its own and the XID that follows closes nothing): the
	// empty transactions such commit events deliver are kept and read again like all others
	for i := 0; i < e.N(2, 10); i++ {
		l := logFromAbstract(e.R, cfgs[e.R.Intn(len(cfgs))], smallGP(), []interface{}{"autorow", "xidalone", "autorow", "xidalone", "commitalone", "txxid", "xidalone", "xidalone"})
		a := defaultAttempt()
		a.Scribble = i%2 == 0
		id++
		RunStreamScenario(e.Rec, &StreamScenario{ID: id, Fam: "c08", Log: l, Start: l.Boundaries()[0], ServerID: 21,
			Attempts: []AttemptPlan{a}, Note: "commits-that-close-nothing"})
	}
	// statements of one session (the same charset from statement to statement, one statement of another session in between),
	// all kept until the stream has ended and then overwritten one after the other: what two statements share shows
	for i := 0; i < e.N(2, 12); i++ {
		cfg := cfgs[e.R.Intn(len(cfgs))]
		l := &Log{Cfg: cfg}
		gp := smallGP()
		tables := []*Table{genTable(e.R, 100, gp)}
		ts := uint32(1600000000)
		f := &LogFile{Name: "mysql-bin.000001"}
		l.Files = []*LogFile{f}
		session := []int{33, 33, 8}
		other := []int{8, 8, 8}
		for k, kind := range []string{"ddl", "ddl", "stmtdml", "txxid", "ddl", "ddl", "stmtdml", "ddl"} {
			u := genUnit(e.R, kind, tables, gp, &ts, cfg.Gtid)
			for _, ev := range u.Evs {
				if ev.K == "query" {
					ev.CS = session
					if k == 4 {
						ev.CS = other
					}
					ev.SV = []byte{4, byte(ev.CS[0]), 0, byte(ev.CS[1]), 0, byte(ev.CS[2]), 0}
				}
			}
			f.Units = append(f.Units, u)
		}
		l.Layout()
		a := defaultAttempt()
		a.ScribbleLate = i%2 == 0
		a.Scribble = !a.ScribbleLate
		id++
		RunStreamScenario(e.Rec, &StreamScenario{ID: id, Fam: "c08", Log: l, Start: l.Boundaries()[0], ServerID: 21,
			Attempts: []AttemptPlan{a}, Note: "one-session"})
	}
	// the same, walking every column shape (one per branch of the decoder: every width, every fraction length, every
	// DECIMAL with whole and partial groups of digits on either side of the point, ...), so that a decoder path that
	// hands out shared storage is visited whatever the seed
	shapes := colShapes()
	e.R.Shuffle(len(shapes), func(i, j int) { shapes[i], shapes[j] = shapes[j], shapes[i] })
	for i := 0; i < len(shapes); i += 5 {
		j := i + 5
		if j > len(shapes) {
			j = len(shapes)
		}
		id++
		repeatedValues(e, id, cfgs[e.R.Intn(len(cfgs))], shapes[i:j], "every-shape")
	}
	// zero timestamps with and without fractions: values that an implementation may be tempted to share
	for i := 0; i < e.N(6, 40); i++ {
		cfg := cfgs[e.R.Intn(len(cfgs))]
		l := &Log{Cfg: cfg}
		t := &Table{ID: 300, DB: "dz", Name: "tz"}
		for c, col := range []Col{colTimestampOld(), colTimestamp2(e.R.Intn(7)), colTimestamp2(0), colTimestamp2(6), colDateTime2(3), colDateTime2(0),
			colDateTime2(e.R.Intn(7)), colDateTimeOld(), colDate(), colTime2(0), colInt("long", false)} {
			col.Name = "z" + itoa(c)
			col.Nullable = true
			t.Cols = append(t.Cols, col)
		}
		f := &LogFile{Name: "mysql-bin.000001"}
		l.Files = []*LogFile{f}
		ts := uint32(1600000000)
		sameSecond := uint32(1500000000 + e.R.Intn(100000000))
		for u := 0; u < 3; u++ {
			ev := &Ev{K: "write", TS: ts, Tbl: t}
			for rw := 0; rw < 2; rw++ {
				var img []Cell
				for ci := range t.Cols {
					c := &t.Cols[ci]
					raw := genCell(e.R, c, 10)
					if c.Typ != 7 && c.Typ != 17 && c.Typ != 3 && e.R.Intn(2) == 0 {
						raw = zeroValue(c) // zero dates / datetimes / times of every encoding, again and again
					}
					if c.Typ == 7 || c.Typ == 17 {
						if e.R.Intn(2) == 0 {
							raw[0], raw[1], raw[2], raw[3] = 0, 0, 0, 0 // the zero timestamp
						} else if c.Typ == 7 {
							raw[0], raw[1], raw[2], raw[3] = byte(sameSecond), byte(sameSecond>>8), byte(sameSecond>>16), byte(sameSecond>>24) // the same second again
						} else {
							raw[0], raw[1], raw[2], raw[3] = byte(sameSecond>>24), byte(sameSecond>>16), byte(sameSecond>>8), byte(sameSecond)
						}
					}
					img = append(img, Cell{St: "val", Bytes: raw})
				}
				none := make([]Cell, len(t.Cols))
				for ci := range none {
					none[ci] = Cell{St: "absent"}
				}
				ev.Rows = append(ev.Rows, RowPair{B: none, A: img})
			}
			f.Units = append(f.Units, &Unit{U: "autorow", Evs: []*Ev{{K: "tablemap", TS: ts, Tbl: t}, ev}})
		}
		l.Layout()
		a := defaultAttempt()
		a.Scribble = true
		id++
		RunStreamScenario(e.Rec, &StreamScenario{ID: id, Fam: "c08", Log: l, Start: l.Boundaries()[0], ServerID: 21,
			Attempts: []AttemptPlan{a}, Note: "zero-timestamps"})
	}
}

// repeatedValues streams three transactions of two rows each over a table with the given columns, every column drawing
// from a small pool of values (the zero value and two others) that come back in later rows and transactions, with a
// handler that scribbles over what it was handed.
func repeatedValues(e *Env, id int, cfg WireCfg, cols []Col, note string) {
	l := &Log{Cfg: cfg}
	t := &Table{ID: 301, DB: "dz", Name: "tzero"}
	for c, col := range cols {
		col.Name = "z" + itoa(c)
		col.Nullable = true
		t.Cols = append(t.Cols, col)
	}
	f := &LogFile{Name: "mysql-bin.000001"}
	l.Files = []*LogFile{f}
	ts := uint32(1600000000)
	pool := make([][][]byte, len(t.Cols))
	for ci := range t.Cols {
		// the third value of the pool is long where the type allows it (an implementation may treat long values differently)
		pool[ci] = [][]byte{zeroValue(&t.Cols[ci]), genCell(e.R, &t.Cols[ci], 12), genCell(e.R, &t.Cols[ci], 60+e.R.Intn(400))}
	}
	for u := 0; u < 3; u++ {
		ev := &Ev{K: pickS(e.R, "write", "update"), TS: ts, Tbl: t}
		for rw := 0; rw < 2; rw++ {
			mk := func() []Cell {
				var img []Cell
				for ci := range t.Cols {
					raw := pool[ci][0]
					switch e.R.Intn(8) {
					case 0:
						raw = genCell(e.R, &t.Cols[ci], 12)
					case 1, 2, 3:
						raw = pool[ci][1+e.R.Intn(2)]
					}
					img = append(img, Cell{St: "val", Bytes: append([]byte(nil), raw...)})
				}
				return img
			}
			none := make([]Cell, len(t.Cols))
			for ci := range none {
				none[ci] = Cell{St: "absent"}
			}
			rp := RowPair{B: none, A: mk()}
			if ev.K == "update" {
				rp.B = mk()
				// an UPDATE leaves most columns as they were: the same bytes in both images
				for ci := range rp.B {
					if e.R.Intn(2) == 0 {
						rp.B[ci] = Cell{St: "val", Bytes: append([]byte(nil), rp.A[ci].Bytes...)}
					}
				}
			}
			ev.Rows = append(ev.Rows, rp)
		}
		f.Units = append(f.Units, &Unit{U: "autorow", Evs: []*Ev{{K: "tablemap", TS: ts, Tbl: t}, ev}})
	}
	l.Layout()
	a := defaultAttempt()
	a.Scribble = true
	RunStreamScenario(e.Rec, &StreamScenario{ID: id, Fam: "c08", Log: l, Start: l.Boundaries()[0], ServerID: 21,
		Attempts: []AttemptPlan{a}, Note: note})
}

// modeC16r: two streams on ONE Streamer whose masters announce different formats - the caller re-positions the streamer (or
// fails over to another master) between the calls. Each call decodes with the format ITS stream announces: file names,
// positions and contents of the second stream are those of the second history, whatever the first one announced (C16:
// the same result with and without the checksum once the announced algorithm is applied; rotate yields file and position).
func modeC16r(e *Env) {
	cfgs := allCfgs()
	for i := 0; i < e.N(16, 200); i++ {
		c1 := cfgs[e.R.Intn(len(cfgs))]
		c2 := c1
		switch i % 4 {
		case 0, 1:
			c2.Checksum = !c1.Checksum // binlog_checksum changed / the other master has another setting
		case 2:
			c2 = cfgs[e.R.Intn(len(cfgs))]
		}
		gp := smallGP()
		l1 := GenLog(e.R, c1, gp, nil)
		l2 := GenLog(e.R, c2, gp, nil)
		if i%4 == 3 {
			// whatever the seed: both histories rotate (a second format description arrives within one stream), under CRC32 and
			// without it, with statements after the rotation
			c1.Checksum, c2.Checksum = i%8 == 3, i%8 == 3
			l1 = logFromAbstract(e.R, c1, gp, []interface{}{"txxid", "rotate", "ddl", "txcommit", "rotate", "stmtdml"})
			l2 = logFromAbstract(e.R, c2, gp, []interface{}{"ddl", "rotate", "txxid", "ddl", "rotate", "txcommit"})
		}
		if i%3 == 0 {
			for fi, f := range l2.Files {
				f.Name = "other-bin." + itoa(100+fi)
			}
			l2.Layout()
		}
		a1 := defaultAttempt()
		if i%5 == 3 {
			a1.End = "cancel"
		}
		a2 := defaultAttempt()
		a2.Log = l2
		bs := l2.Boundaries()
		st2 := bs[e.R.Intn(len(bs))]
		RunStreamScenario(e.Rec, &StreamScenario{ID: i + 1, Fam: "c16r", Log: l1, Start: l1.Boundaries()[0], ServerID: 16,
			Attempts: []AttemptPlan{a1, a2}, SetPosBefore: map[int]Pos{1: st2}, Log2: l2, Start2: st2, Note: "format-changes-between-calls"})
	}
}

func init() { modes["c16r"] = modeC16r }

// ---- C15 (stream half): interleavings and re-announcements of table maps ----------------------------

func init() {
	modes["c15b"] = modeC15b
	modes["c09s"] = e2eMode("c09", func(r *rand.Rand) Col { return randomCol(r) }, false)
}

func modeC15b(e *Env) {
	cfgs := allCfgs()
	n := e.N(60, 1200)
	for i := 0; i < n; i++ {
		cfg := cfgs[i%len(cfgs)]
		gp := smallGP()
		gp.MaxCols = 4
		// table variants: A and C share table id 1 (id re-use for another table), B has id 2, A2 is A under a new id,
		// A3 re-announces A's id and name with other column types (same column count and names)
		A := genTable(e.R, 1, gp)
		B := genTable(e.R, 2, gp)
		C := genTable(e.R, 1, gp)
		for C.DB+"."+C.Name == A.DB+"."+A.Name {
			C = genTable(e.R, 1, gp)
		}
		A2 := &Table{ID: 7, DB: A.DB, Name: A.Name, Cols: A.Cols}
		A3 := &Table{ID: 1, DB: A.DB, Name: A.Name}
		for _, c := range A.Cols {
			nc := colInt(pickS(e.R, "tiny", "short", "long"), c.Uns)
			if c.Kind == "varchar" || c.Kind == "char" {
				nc = colVarchar(pick(e.R, 30, 400))
			}
			nc.Name, nc.Nullable, nc.Uns = c.Name, c.Nullable, c.Uns
			A3.Cols = append(A3.Cols, nc)
		}
		variants := []*Table{A, B, C, A2, A3, A, C}
		l := &Log{Cfg: cfg}
		f := &LogFile{Name: "mysql-bin.000001"}
		l.Files = []*LogFile{f}
		ts := uint32(1600000000)
		ntx := 2 + e.R.Intn(4)
		for x := 0; x < ntx; x++ {
			u := &Unit{U: "txxid"}
			u.Evs = append(u.Evs, &Ev{K: "query", TS: ts, Cat: "begin", DB: "d", SQL: "BEGIN"})
			for s := 0; s < 1+e.R.Intn(4); s++ {
				t := variants[e.R.Intn(len(variants))]
				u.Evs = append(u.Evs, &Ev{K: "tablemap", TS: ts, Tbl: t, Tail: optTail(e.R)})
				if e.R.Intn(3) == 0 {
					// a second map announced before the rows (multi-table statement); rows follow for one of them
					t2 := variants[e.R.Intn(len(variants))]
					if t2.ID != t.ID {
						u.Evs = append(u.Evs, &Ev{K: "tablemap", TS: ts, Tbl: t2})
					}
				}
				u.Evs = append(u.Evs, genRowsEv(e.R, pickS(e.R, "write", "update", "delete"), t, gp, ts))
				ts++
			}
			u.Evs = append(u.Evs, &Ev{K: "xid", TS: ts})
			f.Units = append(f.Units, u)
		}
		if i%4 == 1 {
			// a table map stays valid until its id is announced again: rows for ids announced earlier - in an earlier statement of
			// the transaction, and in an earlier transaction - that are not announced again before them
			D := genTable(e.R, 21, gp)
			E := genTable(e.R, 22, gp)
			u := &Unit{U: "txxid"}
			u.Evs = append(u.Evs, &Ev{K: "query", TS: ts, Cat: "begin", DB: "d", SQL: "BEGIN"}, &Ev{K: "tablemap", TS: ts, Tbl: D}, &Ev{K: "tablemap", TS: ts, Tbl: E},
				genRowsEv(e.R, "write", D, gp, ts), genRowsEv(e.R, pickS(e.R, "write", "update", "delete"), E, gp, ts), genRowsEv(e.R, "update", D, gp, ts), &Ev{K: "xid", TS: ts})
			u2 := &Unit{U: "txxid"}
			u2.Evs = append(u2.Evs, &Ev{K: "query", TS: ts, Cat: "begin", DB: "d", SQL: "BEGIN"},
				genRowsEv(e.R, "delete", E, gp, ts), genRowsEv(e.R, "write", D, gp, ts), &Ev{K: "xid", TS: ts})
			f.Units = append(f.Units, u, u2)
		}
		l.Layout()
		atts := []AttemptPlan{defaultAttempt()}
		if i%6 == 3 && len(A.Cols) > 1 {
			// A's id and name re-announced with one column fewer (DROP COLUMN) while the mapper still knows the old table:
			// the rows must be rejected with an error, not mis-attributed
			A4 := &Table{ID: 1, DB: A.DB, Name: A.Name, Cols: append([]Col{}, A.Cols[:len(A.Cols)-1]...)}
			u := &Unit{U: "txxid"}
			u.Evs = append(u.Evs, &Ev{K: "query", TS: ts, Cat: "begin", DB: "d", SQL: "BEGIN"},
				&Ev{K: "tablemap", TS: ts, Tbl: A}, genRowsEv(e.R, "write", A, gp, ts),
				&Ev{K: "xid", TS: ts})
			u2 := &Unit{U: "txxid"}
			u2.Evs = append(u2.Evs, &Ev{K: "query", TS: ts, Cat: "begin", DB: "d", SQL: "BEGIN"},
				&Ev{K: "tablemap", TS: ts, Tbl: A4}, genRowsEv(e.R, pickS(e.R, "write", "update", "delete"), A4, gp, ts),
				&Ev{K: "xid", TS: ts})
			before := 0
			for _, fu := range f.Units {
				_ = fu
				before++
			}
			f.Units = append(f.Units, u, u2)
			l.Layout()
			mt := l.Tables()
			mt[A.DB+"."+A.Name] = A
			RunStreamScenario(e.Rec, &StreamScenario{ID: i + 1, Fam: "c15", Log: l, Start: l.Boundaries()[0], ServerID: 15,
				Attempts: []AttemptPlan{defaultAttempt()}, Note: "column-count-change", MapperTables: mt, RejectAfterP1: before + 1 + 1})
			continue
		}
		if i%5 == 4 {
			// the mapper answers with a table of another column count: error, not mis-attribution
			a := defaultAttempt()
			names := []string{}
			for k := range l.Tables() {
				names = append(names, k)
			}
			sortStrings(names)
			a.MapperFault = "mismatch:" + names[e.R.Intn(len(names))]
			atts = []AttemptPlan{a, defaultAttempt()}
		}
		RunStreamScenario(e.Rec, &StreamScenario{ID: i + 1, Fam: "c15", Log: l, Start: l.Boundaries()[0], ServerID: 15, Attempts: atts, Note: "reannounce"})
	}
}

func sortStrings(a []string) {
	for i := 1; i < len(a); i++ {
		for j := i; j > 0 && a[j] < a[j-1]; j-- {
			a[j], a[j-1] = a[j-1], a[j]
		}
	}
}

// zeroValue is the encoding of the type's zero / empty value.
func zeroValue(c *Col) []byte {
	switch c.Kind {
	case "tiny", "year":
		return []byte{0}
	case "short":
		return make([]byte, 2)
	case "int24", "date", "time":
		return make([]byte, 3)
	case "long", "float", "timestamp":
		return make([]byte, 4)
	case "longlong", "double", "datetime":
		return make([]byte, 8)
	case "timestamp2":
		nb, _ := fracStorage(c.P1)
		return make([]byte, 4+nb)
	case "datetime2":
		nb, _ := fracStorage(c.P1)
		return append(beN(0x8000000000, 5), make([]byte, nb)...)
	case "time2":
		return time2Encode(0, 0, 0, 0, c.P1, false)
	case "decimal":
		return decimalEncode(c.P1, c.P2, false, make([]byte, c.P1))
	case "enum", "set":
		return make([]byte, c.P1)
	case "bit":
		return make([]byte, (c.P1+7)/8)
	}
	return emptyValue(c)
}

// ---- sessions generated by TLC (spec/Gen_Session.tla) ------------------------------------------

// logFromModel builds exactly the log MC_Session's ModelLog describes for the unit kinds given: same units,
// same statement shapes, hence the same packet sequence as the model's Served (tables a: 2 columns, b: 3 columns).
func logFromModel(r *rand.Rand, cfg WireCfg, units []interface{}) *Log {
	cfg.Gtid = false
	l := &Log{Cfg: cfg}
	gp := quickGP()
	ta := &Table{ID: 101, DB: "d", Name: "a", Cols: []Col{colInt("long", false), colVarchar(20)}}
	tb := &Table{ID: 102, DB: "d", Name: "b", Cols: []Col{colInt("tiny", true), colChar(10), colInt("longlong", false)}}
	for _, t := range []*Table{ta, tb} {
		for i := range t.Cols {
			t.Cols[i].Name = "c" + itoa(i)
			t.Cols[i].Nullable = true
		}
	}
	ts := uint32(1600000000)
	next := func() uint32 { ts += uint32(r.Intn(3)); return ts }
	q := func(cat, sql string) *Ev { return &Ev{K: "query", TS: next(), Cat: cat, DB: "d", SQL: sql} }
	f := &LogFile{Name: "mysql-bin.000001"}
	l.Files = append(l.Files, f)
	for _, ui := range units {
		k := ui.(string)
		u := &Unit{U: k}
		switch k {
		case "txxid":
			u.Evs = []*Ev{q("begin", "BEGIN"), {K: "tablemap", TS: next(), Tbl: ta}, genRowsEv(r, "write", ta, gp, next()), {K: "xid", TS: next()}}
		case "txcommit":
			u.Evs = []*Ev{q("begin", "BEGIN"), q("commit", "COMMIT")}
		case "txrollback":
			u.Evs = []*Ev{q("begin", "BEGIN"), {K: "tablemap", TS: next(), Tbl: tb}, genRowsEv(r, "update", tb, gp, next()), q("rollback", "ROLLBACK")}
		case "ddl":
			u.Evs = []*Ev{q("ddl", "create table t1 (a int)")}
		case "autorow":
			u.Evs = []*Ev{{K: "tablemap", TS: next(), Tbl: tb}, genRowsEv(r, "write", tb, gp, ts)}
		case "rotate":
			u.Evs = []*Ev{{K: "rotate", TS: next()}}
		case "ign":
			u.Evs = []*Ev{{K: "heartbeat"}}
		default:
			panic("logFromModel: unit kind " + k)
		}
		f.Units = append(f.Units, u)
		if k == "rotate" {
			f = &LogFile{Name: "mysql-bin." + pad6(len(l.Files)+1)}
			l.Files = append(l.Files, f)
		}
	}
	l.Layout()
	return l
}

var modelStopKinds = []string{"close", "short", "outofseq", "err", "eof"}

// modeC04g replays every session TLC generated from MC_Session: the model's fault actions become the attempt plans
// (fault kind and the number of packets consumed before it), all attempts run on ONE Streamer with hook tracing, and
// the model's predictions travel in the scenario line for the replay (DRIFT.session).
func modeC04g(e *Env) { replaySessions(e, "c04g", func(i int, hist []interface{}) bool { return true }) }

// modeC17g: the sessions in which the model injects an invalid packet (C17: no partial effect, error, resume position).
func modeC17g(e *Env) {
	replaySessions(e, "c17g", func(i int, hist []interface{}) bool {
		for _, hi := range hist {
			if hi.(map[string]interface{})["fault"].(string) == "inject-invalid" {
				return true
			}
		}
		return false
	})
}

// modeC07g: a quarter of the sessions (quick) / a third of them (thorough): every attempt's handshake (C07).
func modeC07g(e *Env) {
	replaySessions(e, "c07g", func(i int, hist []interface{}) bool { return i%e.N(4, 3) == 0 })
}

func replaySessions(e *Env, fam string, keep func(i int, hist []interface{}) bool) {
	var cfgs []WireCfg
	for _, c := range allCfgs() {
		if !c.Gtid {
			cfgs = append(cfgs, c)
		}
	}
	id := 0
	for i, s := range e.ReadScenarios() {
		units, _ := s["units"].([]interface{})
		hist, _ := s["attempts"].([]interface{})
		if len(hist) == 0 || !keep(i, hist) {
			continue
		}
		l := logFromModel(e.R, cfgs[i%len(cfgs)], units)
		pacing := "burst"
		if i%2 == 1 {
			pacing = "lockstep"
		}
		var atts []AttemptPlan
		for j, hi := range hist {
			h := hi.(map[string]interface{})
			at := int(h["at"].(float64))
			a := defaultAttempt()
			a.Pacing = pacing
			a.HookTrace = true
			switch h["fault"].(string) {
			case "none":
			case "connect":
				// the attempt ends before its dump starts: every way that can happen, in turn
				kinds := []string{"handshake_close", "handshake_err", "set_err", "set_then_reset", "dead"}
				if k := kinds[(i+j)%len(kinds)]; k == "dead" {
					a.Dead = true
				} else {
					a.ConnFault = k
				}
			case "handler":
				a.HandlerErrAt = int(h["k"].(float64))
			case "mapper-err":
				a.MapperFault = "err:d." + h["tbl"].(string)
			case "mapper-mismatch":
				a.MapperFault = "mismatch:d." + h["tbl"].(string)
			case "inject-invalid":
				a.Inject = &Inject{Kind: "invalid", At: at, Raw: invalidPacket(e.R)}
			case "inject-rand":
				a.Inject = &Inject{Kind: pickS(e.R, "rand", "intvar", "rowsquery"), At: at}
			case "stop":
				a.Fault = &Fault{Kind: modelStopKinds[(i+j)%len(modelStopKinds)], At: at, Code: uint16(1000 + e.R.Intn(3000)), Msg: "verif master error"}
			default:
				panic("modeC04g: fault " + h["fault"].(string))
			}
			atts = append(atts, a)
		}
		id++
		RunStreamScenario(e.Rec, &StreamScenario{ID: id, Fam: fam, Log: l, Start: l.Boundaries()[0], ServerID: 11,
			Attempts: atts, Note: "tlc-session", Model: M{"attempts": hist, "expected": s["expected"]}})
	}
}

func init() { modes["c04g"] = modeC04g; modes["c17g"] = modeC17g; modes["c07g"] = modeC07g }

// ---- schedules generated by TLC (spec/Gen_Conn.tla) --------------------------------------------------------------

// scriptScenario turns one behaviour of MC_Conn into a scenario: the log is exactly the packets the behaviour reads
// ("ev": an ignorable event, "commit": a DDL statement (a transaction of its own), "bad": an unsupported event), the
// master's plan is the behaviour's terminal packet / break / connection failure, and the attempt is run with the
// library's hook points as scheduler gates so that it follows the behaviour step by step.
func scriptScenario(r *rand.Rand, cfg WireCfg, steps [][]string) (*Log, AttemptPlan) {
	cfg.Gtid = false
	l := &Log{Cfg: cfg}
	f := &LogFile{Name: "mysql-bin.000001"}
	l.Files = []*LogFile{f}
	a := defaultAttempt()
	a.End = "idle"
	a.HookTrace = true
	a.Script = steps
	ts := uint32(1600000000)
	n := 0 // packets after the two artificial ones
	terminal := false
	returned := false
	for _, st := range steps {
		switch st[0] {
		case "ConnectFail":
			a.Dead = true
		case "SendSetFail":
			a.ConnFault = "set_err"
		case "SendDumpFail":
			a.ConnFault = "set_then_reset"
		case "Return":
			returned = true
		case "Cancel":
			if returned {
				a.CancelAfterReturn = true // (the script performs it; the flag tells the monitors it came after the return)
			}
		case "ReaderRead":
			if terminal {
				continue
			}
			switch st[1] {
			case "ev":
				ts++
				f.Units = append(f.Units, &Unit{U: "ign", Evs: []*Ev{{K: "unknown", TS: ts, Code: 100}}})
				n++
			case "commit":
				ts++
				f.Units = append(f.Units, &Unit{U: "ddl", Evs: []*Ev{{K: "query", TS: ts, Cat: "ddl", DB: "d", SQL: "create table t" + itoa(n) + " (a int)"}}})
				n++
			case "bad":
				if a.Inject == nil {
					a.Inject = &Inject{Kind: "rand", At: 2 + n}
				} else {
					ts++
					f.Units = append(f.Units, &Unit{U: "ign", Evs: []*Ev{{K: "unknown", TS: ts, Code: 100}}})
				}
				n++
			case "EOF":
				a.Fault = &Fault{Kind: "eof", At: 2 + n}
				terminal = true
			case "ERR":
				a.Fault = &Fault{Kind: "err", At: 2 + n, Code: uint16(1000 + r.Intn(3000)), Msg: "verif master error " + itoa(r.Intn(1000))}
				terminal = true
			case "transport":
				a.Fault = &Fault{Kind: "close", At: 2 + n}
				terminal = true
			}
		}
	}
	if a.Fault == nil {
		for _, st := range steps {
			if st[0] == "Break" {
				a.Fault = &Fault{Kind: "close", At: 2 + n}
			}
		}
	}
	l.Layout()
	return l, a
}

// crossScenario replays a behaviour of two Stream calls: the script of the first call ends with its return, whatever is
// still parked at a hook point then (the first call's reader, if the behaviour has not let it leave yet) stays parked, and
// the second call's script - which contains the remaining steps of that reader - goes on from there. The second call is
// served from a history of its own (the caller sets the position before it), built from the packets the behaviour reads.
func crossScenario(e *Env, id int, cfg WireCfg, steps [][]string, second int) {
	l1, a1 := scriptScenario(e.R, cfg, steps[:second])
	a1.Detain, a1.SkipError, a1.HookTrace = true, true, false
	var own [][]string
	for _, st := range steps[second:] {
		if len(st) >= 2 && st[len(st)-1] == "1" && strings.HasPrefix(st[0], "Reader") {
			continue
		}
		own = append(own, st)
	}
	l2, a2 := scriptScenario(e.R, cfg, own)
	l2.Files[0].Name = "second-bin.000001"
	l2.Layout()
	a2.Script = steps[second:]
	a2.HookTrace = false
	a2.Log = l2
	a2.LeakFirst = id%2 == 1
	clean := defaultAttempt()
	clean.Log = l2
	RunStreamScenario(e.Rec, &StreamScenario{ID: id, Fam: "c05g", Log: l1, Start: l1.Boundaries()[0], ServerID: 13,
		Attempts: []AttemptPlan{a1, a2, clean}, SetPosBefore: map[int]Pos{1: l2.Boundaries()[0]}, Note: "tlc-cross",
		Model: M{"result": "none", "eres": "none", "complete": false, "rexit": "none"}})
}

// modeC05g replays the schedules TLC generated from MC_Conn, each followed by a clean attempt on the same Streamer.
func modeC05g(e *Env) {
	var cfgs []WireCfg
	for _, c := range allCfgs() {
		if !c.Gtid {
			cfgs = append(cfgs, c)
		}
	}
	id := 0
	for i, s := range e.ReadScenarios() {
		raw, _ := s["steps"].([]interface{})
		var steps [][]string
		for _, x := range raw {
			var st []string
			for _, y := range x.([]interface{}) {
				st = append(st, y.(string))
			}
			steps = append(steps, st)
		}
		if len(steps) == 0 {
			continue
		}
		ncalls, second := 0, 0
		for k, st := range steps {
			if st[0] == "Call" {
				if ncalls++; ncalls == 2 {
					second = k
				}
			}
		}
		if ncalls == 2 {
			// a behaviour over two Stream calls on the same Streamer (Cover_Conn's cross transitions: the reader of the first
			// call takes a step while the second call is under way)
			if !e.Thorough() && (i+int(e.Seed))%3 != 0 {
				continue
			}
			id++
			crossScenario(e, id, cfgs[i%len(cfgs)], steps, second)
			continue
		}
		if complete, _ := s["complete"].(bool); !complete && !e.Thorough() && (i+int(e.Seed))%12 != 0 && steps[len(steps)-1][0] != "end" {
			continue // transition-coverage scripts (Cover_Conn): a twelfth of them in the quick tier, chosen by the seed
		}
		l, a := scriptScenario(e.R, cfgs[i%len(cfgs)], steps)
		clean := defaultAttempt()
		clean.HookTrace = true
		a.LeakFirst = i%2 == 1
		// Error() cannot be held back (it has no hook point): when the script cancels between the call and its return the
		// model's Error() result is not comparable with the real one
		eresOK, called := true, false
		for _, st := range steps {
			if st[0] == "ErrorCall" {
				called = true
			}
			if st[0] == "Cancel" && called {
				eresOK = false
			}
		}
		// done and the socket are closed together here (no hook point between them): a read the model places between the two
		// sees another connection state than the real one
		inClose := false
		for _, st := range steps {
			switch st[0] {
			case "CloseDone":
				inClose = true
			case "CloseSocket":
				inClose = false
			case "ReaderRead":
				if inClose {
					eresOK = false
				}
			}
		}
		eres := s["eres"]
		if !eresOK {
			eres = "none"
		}
		id++
		RunStreamScenario(e.Rec, &StreamScenario{ID: id, Fam: "c05g", Log: l, Start: l.Boundaries()[0], ServerID: 13,
			Attempts: []AttemptPlan{a, clean}, Note: "tlc-schedule",
			Model: M{"result": s["result"], "eres": eres, "complete": s["complete"], "rexit": s["rexit"]}})
	}
}

func init() { modes["c05g"] = modeC05g; modes["c06g"] = modeC05g }
