package gobinlog_test

import (
	"math/rand"
)

// allCfgs enumerates the wire configurations of C01's quantifier. (rows v2 with 4-byte table ids
// is not a format MySQL can produce - 4-byte ids predate v2 rows events - and is left out.)
func allCfgs() []WireCfg {
	var out []WireCfg
	for _, ck := range []bool{false, true} {
		for _, v2 := range []bool{false, true} {
			for _, tw := range []int{4, 6} {
				for _, g := range []bool{false, true} {
					if v2 && tw == 4 {
						continue
					}
					nt := 38
					if !g && !v2 {
						nt = 35
					}
					out = append(out, WireCfg{Checksum: ck, RowsV2: v2, TidW: tw, Gtid: g, NTypes: nt,
						SrvVer: "5.7.30-log", ServerID: 77})
				}
			}
		}
	}
	return out
}

func quickGP() GenParams {
	return GenParams{MaxUnits: 6, MaxStmts: 3, MaxTables: 3, MaxRows: 3, MaxCols: 5, MaxFiles: 3, MaxPayload: 40}
}

func init() {
	modes["c01"] = modeC01
	modes["c02"] = modeC02
	modes["c03"] = modeC03
}

// casing returns word with the letters selected by the bits of mask upper-cased.
func casing(word string, mask int) string {
	b := []byte(word)
	for i := range b {
		if mask&(1<<uint(i)) != 0 {
			b[i] -= 32
		}
	}
	return string(b)
}

// modeC02: transaction boundaries. Exhaustive unit sequences from TLC (lock-step pacing, so that the
// causal monitor is meaningful), all casings of the boundary keywords, random sequences beyond the bound.
func modeC02(e *Env) {
	cfgs := allCfgs()
	gp := quickGP()
	gp.SimpleCols = true
	id := 0
	for i, s := range e.ReadScenarios() {
		units, _ := s["units"].([]interface{})
		l := logFromAbstract(e.R, cfgs[i%len(cfgs)], gp, units)
		a := defaultAttempt()
		a.Pacing = "lockstep"
		id++
		RunStreamScenario(e.Rec, &StreamScenario{ID: id, Fam: "c02", Log: l, Start: l.Boundaries()[0], ServerID: 7,
			Attempts: []AttemptPlan{a}, Note: "tlc"})
	}
	// every casing of begin (2^5), commit (2^6), rollback (2^8)
	step := e.N(16, 1)
	for m := 0; m < 256; m += step {
		cfg := cfgs[m%len(cfgs)]
		l := &Log{Cfg: cfg}
		tables := []*Table{genTable(e.R, 100, gp)}
		ts := uint32(1600000000)
		f := &LogFile{Name: "mysql-bin.000001"}
		l.Files = []*LogFile{f}
		for _, k := range []string{"txcommit", "txrollback", "txxid"} {
			u := genUnit(e.R, k, tables, gp, &ts, cfg.Gtid)
			for _, ev := range u.Evs {
				switch ev.Cat {
				case "begin":
					ev.SQL = casing("begin", m%32)
				case "commit":
					ev.SQL = casing("commit", m%64)
				case "rollback":
					ev.SQL = casing("rollback", m)
				}
			}
			f.Units = append(f.Units, u)
		}
		l.Layout()
		a := defaultAttempt()
		a.Pacing = "lockstep"
		id++
		RunStreamScenario(e.Rec, &StreamScenario{ID: id, Fam: "c02", Log: l, Start: l.Boundaries()[0], ServerID: 7,
			Attempts: []AttemptPlan{a}, Note: "casing"})
	}
	n := e.N(40, 800)
	for i := 0; i < n; i++ {
		g := gp
		g.MaxUnits = e.N(10, 30)
		l := GenLog(e.R, cfgs[i%len(cfgs)], g, nil)
		a := defaultAttempt()
		if i%2 == 0 {
			a.Pacing = "lockstep"
		}
		id++
		RunStreamScenario(e.Rec, &StreamScenario{ID: id, Fam: "c02", Log: l, Start: l.Boundaries()[0], ServerID: 7,
			Attempts: []AttemptPlan{a}, Note: "random"})
	}
}

// modeC03: position labels. Histories with several files and 32-bit offsets; one full stream, then one
// extra real stream per delivered transaction started at its end label.
func modeC03(e *Env) {
	cfgs := allCfgs()
	gp := quickGP()
	gp.SimpleCols = true
	gp.MaxFiles = 4
	gp.MaxUnits = 8
	baseSets := [][]uint32{nil, {1<<31 - 300, 0, 1<<32 - 200000, 5}, {1<<32 - 100000, 1<<31 - 90, 1 << 31, 77},
		{4294000000, 2147483000, 3000000000, 1 << 24}}
	n := e.N(30, 400)
	for i := 0; i < n; i++ {
		l := GenLog(e.R, cfgs[i%len(cfgs)], gp, baseSets[i%len(baseSets)])
		bs := l.Boundaries()
		start := bs[0]
		if i%4 == 3 {
			start = bs[e.R.Intn(len(bs))]
		}
		RunStreamScenario(e.Rec, &StreamScenario{ID: i + 1, Fam: "c03", Log: l, Start: start, ServerID: 9,
			Attempts: []AttemptPlan{defaultAttempt()}, Resume: true, Note: "random"})
	}
}

// unitsFromAbstract concretises a TLC-generated unit sequence (strings of C02's alphabet).
func logFromAbstract(r *rand.Rand, cfg WireCfg, gp GenParams, units []interface{}) *Log {
	l := &Log{Cfg: cfg}
	var tables []*Table
	for i := 0; i < 2; i++ {
		tables = append(tables, genTable(r, uint64(100+i), gp))
	}
	ts := uint32(1600000000)
	f := &LogFile{Name: "mysql-bin.000001"}
	l.Files = append(l.Files, f)
	for _, ui := range units {
		k := ui.(string)
		switch k {
		case "rotate":
			f.Units = append(f.Units, genUnit(r, k, tables, gp, &ts, cfg.Gtid))
			f = &LogFile{Name: "mysql-bin." + pad6(len(l.Files)+1)}
			l.Files = append(l.Files, f)
		case "gtid", "anongtid", "prevgtids", "heartbeat", "unknownev", "unknownstmt":
			u := &Unit{U: "ign"}
			var e *Ev
			switch k {
			case "gtid":
				e = &Ev{K: "gtid", TS: ts, Sid: vfSid(1), Gno: 9}
			case "anongtid":
				e = &Ev{K: "anongtid", TS: ts}
			case "prevgtids":
				e = &Ev{K: "prevgtids", TS: ts, Sid: vfSid(2), Gno: 5}
			case "heartbeat":
				e = &Ev{K: "heartbeat"}
			case "unknownev":
				e = &Ev{K: "unknown", TS: ts, Code: unknownCodes[r.Intn(len(unknownCodes))]}
			default:
				e = &Ev{K: "query", TS: ts, Cat: "unknown", DB: "d", SQL: "SAVEPOINT s"}
			}
			u.Evs = []*Ev{e}
			f.Units = append(f.Units, u)
		default:
			f.Units = append(f.Units, genUnit(r, k, tables, gp, &ts, cfg.Gtid))
		}
	}
	l.Layout()
	return l
}

func pad6(n int) string {
	s := "000000" + itoa(n)
	return s[len(s)-6:]
}

func itoa(n int) string {
	if n == 0 {
		return "0"
	}
	var b []byte
	for n > 0 {
		b = append([]byte{byte('0' + n%10)}, b...)
		n /= 10
	}
	return string(b)
}

// modeC01: end-to-end fidelity over generated histories x configurations x start positions.
func modeC01(e *Env) {
	cfgs := allCfgs()
	id := 0
	gp := quickGP()
	// (a) TLC-generated unit sequences, each under a configuration chosen round-robin (quick) or all (thorough)
	for i, s := range e.ReadScenarios() {
		units, _ := s["units"].([]interface{})
		use := []WireCfg{cfgs[i%len(cfgs)]}
		if e.Thorough() {
			use = cfgs
		}
		for _, cfg := range use {
			l := logFromAbstract(e.R, cfg, gp, units)
			id++
			sc := &StreamScenario{ID: id, Fam: "c01", Log: l, Start: l.Boundaries()[0], ServerID: 4242,
				Attempts: []AttemptPlan{defaultAttempt()}, Note: "tlc"}
			RunStreamScenario(e.Rec, sc)
		}
	}
	// (b) random wide histories, every configuration, random valid start positions
	n := e.N(36, 600)
	for i := 0; i < n; i++ {
		cfg := cfgs[i%len(cfgs)]
		g := gp
		if e.Thorough() && i%5 == 0 {
			g = GenParams{MaxUnits: 40, MaxStmts: 6, MaxTables: 8, MaxRows: 20, MaxCols: 40, MaxFiles: 4, MaxPayload: 300}
		}
		l := GenLog(e.R, cfg, g, nil)
		bs := l.Boundaries()
		start := bs[0]
		if i%3 != 0 {
			start = bs[e.R.Intn(len(bs))]
		}
		a := defaultAttempt()
		if i%2 == 1 {
			a.Pacing = "lockstep"
		}
		if i%4 == 2 {
			a.End = "cancel"
		}
		id++
		sc := &StreamScenario{ID: id, Fam: "c01", Log: l, Start: start, ServerID: uint32(1 + e.R.Intn(1<<30)),
			Attempts: []AttemptPlan{a}, Note: "random"}
		RunStreamScenario(e.Rec, sc)
	}
}
