package gobinlog_test

// Scenario model for the stream family: an abstract master log (files -> units -> events),
// its concretisation to bytes with real offset arithmetic, and the packet sequence a master
// serves for a dump request.

import (
	"fmt"
	"math/rand"
	"strconv"
	"strings"
)

// Ev is one binlog event, abstract description plus (after layout) its bytes and offsets.
type Ev struct {
	K    string // fde rotate xid query tablemap write update delete gtid anongtid prevgtids heartbeat unknown rand intvar rowsquery
	TS   uint32
	Fake bool // artificial event (log_pos 0): fake ROTATE, FDE of a mid-file dump
	// query
	Cat string // intended category: begin commit rollback ddl dml unknown
	SQL string
	DB  string
	SV  []byte // status vars
	CS  []int  // the session charset the status vars carry (client, connection, server collation); nil: none
	// tablemap / rows
	Tbl   *Table
	Rows  []RowPair
	Extra []byte
	Tail  []byte // optional metadata tail of a table map
	// rotate
	RotFile string
	RotPos  uint64
	// unknown
	Code byte
	// gtid
	Sid [16]byte
	Gno int64
	// layout results
	Bytes []byte
	Start uint32 // offset of the event in its file (wire value, including the file's base)
	End   uint32 // offset after the event = header log_pos
}

// Unit is one element of the well-formed grammar (C02's alphabet).
type Unit struct {
	U   string // txxid txcommit txrollback ddl autorow stmtdml rotate ign
	Evs []*Ev
}

// LogFile is one binlog file: magic, FDE, [PREVIOUS_GTIDS], units; the last unit of every file
// but the last is a rotate.
type LogFile struct {
	Name  string
	Base  uint32 // added to every offset of this file (to reach 32-bit offsets)
	FDE   *Ev
	Prev  *Ev
	Units []*Unit
	Cksum *bool // non-nil: this file was written under another binlog_checksum setting than the log's (SET GLOBAL binlog_checksum rotates the log)
}

// Log is the whole master log.
type Log struct {
	Cfg   WireCfg
	Files []*LogFile
	ckOverride *bool // set while a file with its own checksum setting is laid out or served
}

// layoutEv builds the event's bytes at wire offset start and returns the end offset.
func (l *Log) layoutEv(e *Ev, start uint32) uint32 {
	c := l.Cfg
	if l.ckOverride != nil {
		c.Checksum = *l.ckOverride // the file being laid out / served has a binlog_checksum setting of its own
	}
	var typ byte
	var body []byte
	crc := c.Checksum
	switch e.K {
	case "fde":
		typ = tFormatDesc
		alg := byte(0)
		if c.Checksum {
			alg = 1
		}
		body = fdeBody(c, e.TS, alg)
		crc = true // a FORMAT_DESCRIPTION always ends with 4 checksum bytes
	case "rotate":
		typ, body = tRotate, rotateBody(e.RotPos, e.RotFile)
	case "xid":
		typ, body = tXid, le64(uint64(e.TS)*7+3)
	case "query":
		typ, body = tQuery, queryBody(11, 0, e.DB, 0, e.SV, e.SQL)
	case "tablemap":
		typ, body = tTableMap, tableMapBody(c, e.Tbl, e.Tail)
	case "write", "update", "delete":
		typ = rowsType(c, e.K)
		var pb, pa []bool
		if len(e.Rows) > 0 {
			pb, pa = presentOf(e.Rows[0].B), presentOf(e.Rows[0].A)
		} else {
			pb, pa = make([]bool, len(e.Tbl.Cols)), make([]bool, len(e.Tbl.Cols))
			for i := range pb {
				pb[i], pa[i] = true, true
			}
		}
		body = rowsBody(c, e.K, e.Tbl, e.Rows, e.Extra, pb, pa)
	case "gtid":
		typ, body = tGtid, gtidBody(1, e.Sid, e.Gno, c.NTypes >= 38)
	case "anongtid":
		typ, body = tAnonymousGtid, gtidBody(1, [16]byte{}, 0, c.NTypes >= 38)
	case "prevgtids":
		typ, body = tPreviousGtids, sidBlock([][16]byte{e.Sid}, [][][2]int64{{{1, e.Gno}}})
	case "heartbeat":
		typ, body = tHeartbeat, []byte(e.RotFile)
	case "unknown":
		typ, body = e.Code, []byte{1, 2, 3, 4, 5, 6, 7, 8}
	case "rand":
		typ, body = tRand, append(le64(12345), le64(67890)...)
	case "intvar":
		typ, body = tIntVar, append([]byte{2}, le64(42)...)
	case "rowsquery":
		typ, body = tRowsQuery, append([]byte{byte(len(e.SQL))}, e.SQL...)
	default:
		panic("layoutEv: " + e.K)
	}
	n := 19 + len(body)
	if crc {
		n += 4
	}
	e.Start = start
	if e.Fake || e.K == "heartbeat" {
		// artificial events do not occupy file space
		np := uint32(0)
		if e.K == "heartbeat" {
			np = start
		}
		e.Bytes = mkEvent(e.TS, typ, c.ServerID, np, 0x20, body, crc)
		e.End = start
		return start
	}
	e.End = start + uint32(n)
	e.Bytes = mkEvent(e.TS, typ, c.ServerID, e.End, 0, body, crc)
	return e.End
}

// Layout assigns offsets and bytes to every event of the log.
func (l *Log) Layout() {
	defer func() { l.ckOverride = nil }()
	for fi, f := range l.Files {
		l.ckOverride = f.Cksum
		off := f.Base + 4
		f.FDE = &Ev{K: "fde", TS: 1500000000 + uint32(fi)}
		off = l.layoutEv(f.FDE, off)
		if l.Cfg.Gtid {
			f.Prev = &Ev{K: "prevgtids", TS: f.FDE.TS, Sid: vfSid(1), Gno: int64(fi + 1)}
			off = l.layoutEv(f.Prev, off)
		}
		for _, u := range f.Units {
			for ei, e := range u.Evs {
				if (e.K == "rotate" && !e.Fake) || (u.U == "rotate" && ei == 0) {
					// (a file that ends without a ROTATE event - the master was restarted - ends with a STOP event, which
					// carries the switch target only as scenario metadata)
					nf := l.Files[fi+1]
					e.RotFile, e.RotPos = nf.Name, uint64(nf.Base)+4
				}
				if e.K == "heartbeat" {
					e.RotFile = f.Name
				}
				off = l.layoutEv(e, off)
			}
		}
	}
}

func vfSid(n byte) [16]byte {
	var s [16]byte
	for i := range s {
		s[i] = byte(i*17) + n
	}
	return s
}

// Pos is a binlog coordinate with the offset as a wire value.
type Pos struct {
	File string
	Off  uint32
}

// Boundaries returns every valid resume point in order: start of each file (offset 4) and the
// end of every unit that produces a transaction.
func (l *Log) Boundaries() []Pos {
	var out []Pos
	for _, f := range l.Files {
		out = append(out, Pos{f.Name, f.Base + 4})
		for _, u := range f.Units {
			switch u.U {
			case "txxid", "txcommit", "txrollback", "ddl", "autorow", "stmtdml", "xidalone", "commitalone":
				out = append(out, Pos{f.Name, u.Evs[len(u.Evs)-1].End})
			}
		}
	}
	return out
}

// Served returns the events a master sends for a dump starting at pos (nil, false when the
// position is not an event boundary of the log).
func (l *Log) Served(pos Pos) ([]*Ev, bool) {
	fi := -1
	for i, f := range l.Files {
		if f.Name == pos.File {
			fi = i
		}
	}
	if fi < 0 {
		return nil, false
	}
	var out []*Ev
	mk := func(e *Ev, at uint32) *Ev { l.layoutEv(e, at); return e }
	first := true
	defer func() { l.ckOverride = nil }()
	for ; fi < len(l.Files); fi++ {
		f := l.Files[fi]
		from := f.Base + 4
		if first {
			from = pos.Off
			l.ckOverride = f.Cksum
		}
		// (the artificial ROTATE that announces the next file is framed like the file the dump thread has been reading: the
		// new file's format description, which may announce another checksum algorithm, comes after it)
		out = append(out, mk(&Ev{K: "rotate", Fake: true, RotFile: f.Name, RotPos: uint64(from)}, from))
		l.ckOverride = f.Cksum
		var evs []*Ev
		evs = append(evs, f.FDE)
		if f.Prev != nil {
			evs = append(evs, f.Prev)
		}
		for _, u := range f.Units {
			evs = append(evs, u.Evs...)
		}
		if first && from != f.Base+4 {
			// mid-file: artificial FDE, then the events from `from`
			out = append(out, mk(&Ev{K: "fde", Fake: true, TS: f.FDE.TS}, from))
			found := false
			prevEnd := f.Base + 4
			for _, e := range evs {
				if e.K == "heartbeat" {
					// an artificial event has no offset of its own: it follows the position the previous event ended at
					if prevEnd == from {
						found = true
					}
					if found {
						out = append(out, e)
					}
					continue
				}
				if e.Start == from {
					found = true
				}
				if found {
					out = append(out, e)
				}
				prevEnd = e.End
			}
			if !found {
				// maybe the end of file
				last := evs[len(evs)-1]
				if last.End != from {
					return nil, false
				}
			}
		} else {
			out = append(out, evs...)
		}
		first = false
	}
	return out, true
}

// ---- generation of random well-formed histories --------------------------------------------

// GenParams bounds the random history generator.
type GenParams struct {
	MaxUnits, MaxStmts, MaxTables, MaxRows, MaxCols, MaxFiles, MaxPayload int
	SimpleCols                                                            bool
	ExactCols                                                             int // > 0: every table has exactly this many columns
	SparseImages                                                          bool // partial row images carry only 1-3 columns
	ExactRows int // > 0: every rows event has exactly this many rows
}

func randName(r *rand.Rand, n int) string {
	b := make([]byte, n)
	for i := range b {
		b[i] = byte('a' + r.Intn(26))
	}
	return string(b)
}

func randCase(r *rand.Rand, s string) string {
	b := []byte(s)
	for i := range b {
		if r.Intn(2) == 0 {
			b[i] = byte(strings.ToUpper(string(b[i]))[0])
		}
	}
	return string(b)
}

func genTable(r *rand.Rand, id uint64, gp GenParams) *Table {
	t := &Table{ID: id, DB: "db" + randName(r, 1+r.Intn(4)), Name: "t" + randName(r, 1+r.Intn(6))}
	n := 1 + r.Intn(gp.MaxCols)
	if gp.ExactCols > 0 {
		n = gp.ExactCols
	}
	for i := 0; i < n; i++ {
		var c Col
		if gp.SimpleCols {
			switch r.Intn(4) {
			case 0:
				c = colInt("long", r.Intn(2) == 0)
			case 1:
				c = colVarchar(pick(r, 20, 300))
			case 2:
				c = colInt("tiny", false)
			default:
				c = colChar(10)
			}
		} else {
			c = randomCol(r)
		}
		c.Name = fmt.Sprintf("c%d_%s", i, randName(r, 1+r.Intn(5)))
		c.Nullable = true
		t.Cols = append(t.Cols, c)
	}
	return t
}

func genImage(r *rand.Rand, t *Table, present []bool, maxPayload int) []Cell {
	cells := make([]Cell, len(t.Cols))
	for i := range t.Cols {
		switch {
		case !present[i]:
			cells[i] = Cell{St: "absent"}
		case r.Intn(5) == 0:
			cells[i] = Cell{St: "null"}
		default:
			cells[i] = Cell{St: "val", Bytes: genCell(r, &t.Cols[i], maxPayload)}
		}
	}
	return cells
}

func genPresent(r *rand.Rand, n int) []bool {
	p := make([]bool, n)
	full := r.Intn(2) == 0
	for i := range p {
		p[i] = full || r.Intn(3) != 0
	}
	// a row image always carries at least one column
	any := false
	for _, v := range p {
		any = any || v
	}
	if !any {
		p[r.Intn(n)] = true
	}
	return p
}

func genRowsEv(r *rand.Rand, kind string, t *Table, gp GenParams, ts uint32) *Ev {
	e := &Ev{K: kind, TS: ts, Tbl: t}
	if r.Intn(2) == 0 {
		e.Extra = randBytes(r, pick(r, 0, 1, 8))
	}
	n := len(t.Cols)
	pb, pa := genPresent(r, n), genPresent(r, n)
	if gp.SparseImages {
		// few columns present: on a wide table the NULL bitmap of the image is shorter than one sized by the table width
		sparse := func() []bool {
			p := make([]bool, n)
			for k := 0; k < 1+r.Intn(3); k++ {
				p[r.Intn(n)] = true
			}
			return p
		}
		pb, pa = sparse(), sparse()
	}
	nrows := 1 + r.Intn(gp.MaxRows)
	if gp.ExactRows > 0 {
		nrows = gp.ExactRows
	}
	for i := 0; i < nrows; i++ {
		rp := RowPair{}
		if kind != "write" {
			rp.B = genImage(r, t, pb, gp.MaxPayload)
		} else {
			rp.B = genImage(r, t, make([]bool, n), 0)
		}
		if kind != "delete" {
			rp.A = genImage(r, t, pa, gp.MaxPayload)
		} else {
			rp.A = genImage(r, t, make([]bool, n), 0)
		}
		e.Rows = append(e.Rows, rp)
	}
	return e
}

var unknownCodes = []byte{0, 3, 36, 37, 38, 40, 41, 100}

func genIgnorable(r *rand.Rand, ts uint32, insideTx bool, gtidOn bool) *Ev {
	for {
		switch r.Intn(6) {
		case 0:
			return &Ev{K: "heartbeat", TS: 0}
		case 1:
			return &Ev{K: "unknown", TS: ts, Code: unknownCodes[r.Intn(len(unknownCodes))]}
		case 2:
			return &Ev{K: "query", TS: ts, Cat: "unknown", DB: "d", SQL: pickS(r, "SAVEPOINT sp1", "FLUSH TABLES", "GRANT ALL ON x", "XA START 'a'", "/* c */ select 1", "", "REPLACE INTO t VALUES (1)", "replace into d.t select 1", "CALL p()", "LOAD DATA INFILE 'x' INTO TABLE t", "Analyze table t")}
		case 3:
			if !insideTx && gtidOn {
				return &Ev{K: "gtid", TS: ts, Sid: vfSid(byte(r.Intn(3))), Gno: int64(1 + r.Intn(1000))}
			}
		case 4:
			if !insideTx {
				return &Ev{K: "anongtid", TS: ts}
			}
		case 5:
			if !insideTx && gtidOn {
				return &Ev{K: "prevgtids", TS: ts, Sid: vfSid(2), Gno: 5}
			}
		}
	}
}

func pickS(r *rand.Rand, xs ...string) string { return xs[r.Intn(len(xs))] }

// genUnit builds one unit of the given kind.
func genUnit(r *rand.Rand, kind string, tables []*Table, gp GenParams, ts *uint32, gtidOn bool) *Unit {
	u := &Unit{U: kind}
	next := func() uint32 { *ts += uint32(r.Intn(3)); return *ts }
	add := func(e *Ev) { u.Evs = append(u.Evs, e) }
	stmt := func(inside bool) {
		t := tables[r.Intn(len(tables))]
		switch r.Intn(8) {
		case 7:
			if !inside {
				add(&Ev{K: "tablemap", TS: next(), Tbl: t, Tail: optTail(r)})
				add(genRowsEv(r, pickS(r, "write", "update", "delete"), t, gp, next()))
				break
			}
			// a DDL statement logged INSIDE the transaction (CREATE / DROP TEMPORARY TABLE do not commit implicitly): one more
			// change of the transaction, not a commit point
			add(&Ev{K: "query", TS: next(), Cat: "ddl", DB: t.DB,
				SQL: randCase(r, pickS(r, "create", "drop")) + " temporary table tmp_" + randName(r, 3) + pickS(r, " (a int)", "")})
		case 0:
			add(&Ev{K: "query", TS: next(), Cat: "dml", DB: t.DB,
				SQL: randCase(r, pickS(r, "insert", "update", "delete")) + " " + t.Name + " /* stmt */"})
		default:
			add(&Ev{K: "tablemap", TS: next(), Tbl: t, Tail: optTail(r)})
			if r.Intn(4) == 0 && len(tables) > 1 {
				t2 := tables[r.Intn(len(tables))]
				add(&Ev{K: "tablemap", TS: *ts, Tbl: t2, Tail: optTail(r)})
				if r.Intn(2) == 0 {
					t = t2
				}
			}
			add(genRowsEv(r, pickS(r, "write", "update", "delete"), t, gp, next()))
			if r.Intn(4) == 0 {
				add(genRowsEv(r, pickS(r, "write", "update", "delete"), t, gp, *ts))
			}
		}
		if inside && r.Intn(4) == 0 {
			add(genIgnorable(r, *ts, true, gtidOn))
		}
	}
	switch kind {
	case "txxid", "txcommit", "txrollback":
		if gtidOn {
			add(&Ev{K: "gtid", TS: next(), Sid: vfSid(1), Gno: int64(1 + r.Intn(1 << 20))})
		} else if r.Intn(3) == 0 {
			add(&Ev{K: "anongtid", TS: next()})
		}
		add(&Ev{K: "query", TS: next(), Cat: "begin", DB: pickS(r, "d", "d", ""), SQL: randCase(r, "begin")})
		if r.Intn(5) == 0 {
			add(genIgnorable(r, *ts, true, gtidOn))
		}
		n := r.Intn(gp.MaxStmts + 1)
		for i := 0; i < n; i++ {
			stmt(true)
		}
		switch kind {
		case "txxid":
			add(&Ev{K: "xid", TS: next()})
		case "txcommit":
			add(&Ev{K: "query", TS: next(), Cat: "commit", DB: pickS(r, "d", "d", ""), SQL: randCase(r, "commit")})
		default:
			add(&Ev{K: "query", TS: next(), Cat: "rollback", DB: pickS(r, "d", "d", ""), SQL: randCase(r, "rollback")})
		}
	case "ddl":
		if gtidOn {
			add(&Ev{K: "gtid", TS: next(), Sid: vfSid(1), Gno: int64(1 + r.Intn(1 << 20))})
		}
		add(&Ev{K: "query", TS: next(), Cat: "ddl", DB: pickS(r, "", "d", "dbx"),
			SQL: randCase(r, pickS(r, "create", "alter", "drop", "truncate", "rename")) + " table t" + randName(r, 3)})
	case "stmtdml":
		t := tables[r.Intn(len(tables))]
		add(&Ev{K: "query", TS: next(), Cat: "dml", DB: t.DB,
			SQL: randCase(r, pickS(r, "insert", "update", "delete")) + " " + t.Name + " set x=1"})
	case "autorow":
		t := tables[r.Intn(len(tables))]
		add(&Ev{K: "tablemap", TS: next(), Tbl: t, Tail: optTail(r)})
		add(genRowsEv(r, pickS(r, "write", "update", "delete"), t, gp, *ts))
	case "rotate":
		if r.Intn(3) == 0 {
			// the master was restarted: the file ends with a STOP event (type 3) and the switch to the next file is only
			// announced by the artificial ROTATE the master sends in front of the next file
			add(&Ev{K: "unknown", TS: next(), Code: 3})
		} else {
			add(&Ev{K: "rotate", TS: next()})
		}
	case "ign":
		add(genIgnorable(r, next(), false, gtidOn))
	case "xidalone":
		// a commit event that closes nothing (no BEGIN before it): a commit point of its own, an empty transaction
		add(&Ev{K: "xid", TS: next()})
	case "commitalone":
		add(&Ev{K: "query", TS: next(), Cat: "commit", DB: pickS(r, "d", ""), SQL: randCase(r, "commit")})
	}
	return u
}

// unknownVerbs: statements a master logs in statement or mixed format that the library has no kind for. They are ignored,
// inside and outside transactions.
var unknownVerbs = []string{"REPLACE INTO t VALUES (1)", "replace into d.t select 1", "Replace t set a=1", "CALL p()", "LOAD DATA INFILE 'x' INTO TABLE t",
	"ANALYZE TABLE t", "OPTIMIZE TABLE t", "GRANT ALL ON x", "REVOKE ALL ON x", "SAVEPOINT sp1", "RELEASE SAVEPOINT sp1", "XA START 'a'", "FLUSH TABLES",
	"WITH c AS (SELECT 1) SELECT 1", "DO 1", "select 1", "INSERTX", "deleted", "", " insert into t values (1)", "/* c */ update t set a=1"}

// verbsLog: every statement the library has no kind for, once between transactions and once inside a transaction that also
// holds ordinary changes.
func verbsLog(r *rand.Rand, cfg WireCfg, gp GenParams) *Log {
	l := &Log{Cfg: cfg}
	tables := []*Table{genTable(r, 100, gp)}
	ts := uint32(1600000000)
	f := &LogFile{Name: "mysql-bin.000001"}
	l.Files = []*LogFile{f}
	for _, sql := range unknownVerbs {
		f.Units = append(f.Units, &Unit{U: "ign", Evs: []*Ev{{K: "query", TS: ts, Cat: "unknown", DB: "d", SQL: sql}}})
		u := genUnit(r, pickS(r, "txxid", "txcommit", "txrollback"), tables, gp, &ts, cfg.Gtid)
		// after the BEGIN (the first query event of the unit)
		for i, ev := range u.Evs {
			if ev.K == "query" && ev.Cat == "begin" {
				rest := append([]*Ev{{K: "query", TS: ts, Cat: "unknown", DB: "d", SQL: sql}}, u.Evs[i+1:]...)
				u.Evs = append(u.Evs[:i+1:i+1], rest...)
				break
			}
		}
		f.Units = append(f.Units, u)
	}
	l.assignStatusVars(r)
	l.Layout()
	return l
}

// assignStatusVars gives every query event of the log a block of status variables as a MySQL master writes them (a
// subset of flags2, sql_mode, catalog, auto_increment, charset, time zone, ... in the server's order): with and without
// the session charset, and with different charsets from one statement to the next.
func (l *Log) assignStatusVars(r *rand.Rand) {
	mode := r.Intn(4) // 0: no query event has status vars; 1: all have the charset; 2, 3: mixed
	if mode == 0 {
		return
	}
	var session []int
	for _, f := range l.Files {
		for _, u := range f.Units {
			for _, e := range u.Evs {
				if e.K != "query" {
					continue
				}
				var sv []byte
				if r.Intn(2) == 0 {
					sv = append(append(sv, 0), randBytes(r, 4)...)
				}
				if r.Intn(2) == 0 {
					sv = append(append(sv, 1), randBytes(r, 8)...)
				}
				if r.Intn(3) == 0 {
					sv = append(append(sv, 6, 3), "std"...)
				}
				if r.Intn(4) == 0 {
					sv = append(append(sv, 3), randBytes(r, 4)...)
				}
				e.CS = nil
				if mode == 1 || r.Intn(2) == 0 {
					// a session keeps its charset from one statement to the next most of the time
					if session == nil || r.Intn(4) == 0 {
						session = []int{pick(r, 8, 33, 45, 63, 255, r.Intn(65536)), pick(r, 8, 33, 45, 224, r.Intn(65536)), pick(r, 8, 33, 255, r.Intn(65536))}
					}
					cs := append([]int(nil), session...)
					sv = append(sv, 4)
					for _, c := range cs {
						sv = append(sv, le16(uint16(c))...)
					}
					e.CS = cs
				}
				if r.Intn(3) == 0 {
					sv = append(append(sv, 5, 6), "SYSTEM"...)
				}
				if r.Intn(4) == 0 {
					sv = append(append(sv, 7), randBytes(r, 2)...)
				}
				e.SV = sv
			}
		}
	}
}

// mysql8Tail is the optional metadata a MySQL 8.0 master appends to a table map under binlog_row_metadata=MINIMAL: the
// SIGNEDNESS field (type 1), one bit per NUMERIC column - the integer types, FLOAT, DOUBLE and DECIMAL - in column order,
// most significant bit first, set for unsigned columns; it agrees with what the table mapper says.
func mysql8Tail(t *Table) []byte {
	var bits []bool
	for _, c := range t.Cols {
		switch c.Typ {
		case 1, 2, 3, 8, 9, 4, 5, 246:
			bits = append(bits, c.Uns)
		}
	}
	if len(bits) == 0 {
		return nil
	}
	val := make([]byte, (len(bits)+7)/8)
	for i, b := range bits {
		if b {
			val[i/8] |= 0x80 >> uint(i%8)
		}
	}
	return append([]byte{1, byte(len(val))}, val...)
}

func optTail(r *rand.Rand) []byte {
	if r.Intn(3) != 0 {
		return nil
	}
	// TLV blocks as MySQL 8.0 appends (type, length, value)
	var b []byte
	for i := 0; i < 1+r.Intn(3); i++ {
		n := r.Intn(6)
		b = append(b, byte(1+r.Intn(10)), byte(n))
		b = append(b, randBytes(r, n)...)
	}
	return b
}

var unitKinds = []string{"txxid", "txxid", "txcommit", "txrollback", "ddl", "autorow", "stmtdml", "ign", "rotate", "txxid", "autorow", "xidalone", "commitalone"}

// GenLog builds a random well-formed log.
func GenLog(r *rand.Rand, cfg WireCfg, gp GenParams, bases []uint32) *Log {
	cfg.PadOnes = r.Intn(3) == 0
	l := &Log{Cfg: cfg}
	nt := 1 + r.Intn(gp.MaxTables)
	var tables []*Table
	for i := 0; i < nt; i++ {
		id := uint64(100 + i)
		if cfg.TidW == 6 && r.Intn(3) == 0 {
			id = uint64(1)<<40 + uint64(r.Intn(1000)) + uint64(i)*1000
		}
		tables = append(tables, genTable(r, id, gp))
	}
	ts := uint32(1600000000 + r.Intn(1000))
	nu := 1 + r.Intn(gp.MaxUnits)
	scheme := r.Intn(4)
	f := &LogFile{Name: logFileName(scheme, 0)}
	if len(bases) > 0 {
		f.Base = bases[0]
	}
	l.Files = append(l.Files, f)
	for i := 0; i < nu; i++ {
		k := unitKinds[r.Intn(len(unitKinds))]
		if k == "rotate" {
			if len(l.Files) >= gp.MaxFiles {
				continue
			}
			f.Units = append(f.Units, genUnit(r, k, tables, gp, &ts, cfg.Gtid))
			f = &LogFile{Name: logFileName(scheme, len(l.Files))}
			if len(bases) > len(l.Files) {
				f.Base = bases[len(l.Files)]
			}
			l.Files = append(l.Files, f)
			continue
		}
		f.Units = append(f.Units, genUnit(r, k, tables, gp, &ts, cfg.Gtid))
	}
	l.assignStatusVars(r)
	l.Layout()
	return l
}

// logFileName: the name of the i-th file of a log (0-based). File names are opaque to a replica: they need not sort in the
// order the master switches through them (the sequence number rolls over from 999999 to 1000000; RESET MASTER starts again
// at 000001; the base name may change).
func logFileName(scheme, i int) string {
	switch scheme {
	case 1: // sequence rollover
		return "mysql-bin." + strconv.Itoa(999999+i)
	case 2: // numbering restarted / descending
		return fmt.Sprintf("mysql-bin.%06d", 9-i)
	case 3: // the base name changes
		return fmt.Sprintf("%s.%06d", []string{"zeta-bin", "alpha-bin", "mid-bin", "b", "a"}[i%5], i+1)
	}
	return fmt.Sprintf("mysql-bin.%06d", i+1)
}

// Tables returns every table announced anywhere in the log, by db.name.
func (l *Log) Tables() map[string]*Table {
	m := map[string]*Table{}
	for _, f := range l.Files {
		for _, u := range f.Units {
			for _, e := range u.Evs {
				if e.Tbl != nil {
					m[e.Tbl.DB+"."+e.Tbl.Name] = e.Tbl
				}
			}
		}
	}
	return m
}

func u32s(v uint32) string { return strconv.FormatUint(uint64(v), 10) }
