package gobinlog_test

// Binary JSON (C14): document trees, an independent serialiser written from json_binary.cc's format
// description (DESIGN.md Appendix A.7), and a parser of the SQL-ish text the library prints (projection).

import (
	"bytes"
	"context"
	"encoding/json"
	"fmt"
	"math"
	"math/rand"
	"sort"
	"strconv"
	"strings"

	gobinlog "github.com/Breeze0806/gobinlog"
	"github.com/Breeze0806/gobinlog/replication"
)

// JNode is a JSON document node.
type JNode struct {
	K    string // obj arr lit int dbl str date time datetime dec
	Keys []string
	Vals []*JNode // obj / arr children
	Lit  string   // null true false
	I    int64    // int (signed kinds)
	U    uint64   // int (unsigned kinds)
	W    string   // i16 u16 i32 u32 i64 u64
	F    float64
	S    string
	// temporal
	Neg                      bool
	Y, Mo, D, H, Mi, Sec, Us int
	// decimal
	P, Sc  int
	DecRaw []byte
}

func (n *JNode) J() M {
	switch n.K {
	case "obj":
		kv := []M{}
		for i, k := range n.Keys {
			kv = append(kv, M{"key": B(k), "v": n.Vals[i].J()})
		}
		return M{"k": "obj", "kv": kv}
	case "arr":
		xs := []M{}
		for _, v := range n.Vals {
			xs = append(xs, v.J())
		}
		return M{"k": "arr", "xs": xs}
	case "lit":
		return M{"k": "lit", "v": n.Lit}
	case "int":
		var dec string
		if n.W[0] == 'u' {
			dec = strconv.FormatUint(n.U, 10)
		} else {
			dec = strconv.FormatInt(n.I, 10)
		}
		return M{"k": "int", "w": n.W, "dec": B(dec)}
	case "dbl":
		return M{"k": "dbl", "bits": B(le64(math.Float64bits(n.F)))}
	case "str":
		return M{"k": "str", "s": B(n.S)}
	case "date":
		return M{"k": "date", "y": n.Y, "m": n.Mo, "d": n.D}
	case "time":
		return M{"k": "time", "neg": n.Neg, "h": n.H, "mi": n.Mi, "s": n.Sec, "us": n.Us}
	case "datetime":
		return M{"k": "datetime", "y": n.Y, "m": n.Mo, "d": n.D, "h": n.H, "mi": n.Mi, "s": n.Sec, "us": n.Us}
	case "dec":
		return M{"k": "dec", "p": n.P, "sc": n.Sc, "raw": B(n.DecRaw)}
	}
	panic("JNode.J " + n.K)
}

// ---- serialiser ------------------------------------------------------------------------------

const (
	jbSmallObj = 0
	jbLargeObj = 1
	jbSmallArr = 2
	jbLargeArr = 3
	jbLiteral  = 4
	jbInt16    = 5
	jbUint16   = 6
	jbInt32    = 7
	jbUint32   = 8
	jbInt64    = 9
	jbUint64   = 10
	jbDouble   = 11
	jbString   = 12
	jbOpaque   = 15
)

func varLen(n int) []byte {
	var b []byte
	for {
		c := byte(n & 0x7f)
		n >>= 7
		if n > 0 {
			b = append(b, c|0x80)
		} else {
			return append(b, c)
		}
	}
}

func packedDT(y, mo, d, h, mi, s, us int) uint64 {
	ymd := uint64(y*13+mo)<<5 | uint64(d)
	hms := uint64(h)<<12 | uint64(mi)<<6 | uint64(s)
	return (ymd<<17|hms)<<24 | uint64(us)
}

// jbValue returns the type byte and the serialised data (what follows the type byte) of a node.
// forceLarge forces the large format for every container of the document (a valid if unusual encoding).
func jbValue(n *JNode, forceLarge bool) (byte, []byte) {
	switch n.K {
	case "lit":
		return jbLiteral, []byte{map[string]byte{"null": 0, "true": 1, "false": 2}[n.Lit]}
	case "int":
		switch n.W {
		case "i16":
			return jbInt16, leN(uint64(n.I), 2)
		case "u16":
			return jbUint16, leN(n.U, 2)
		case "i32":
			return jbInt32, leN(uint64(n.I), 4)
		case "u32":
			return jbUint32, leN(n.U, 4)
		case "i64":
			return jbInt64, leN(uint64(n.I), 8)
		default:
			return jbUint64, leN(n.U, 8)
		}
	case "dbl":
		return jbDouble, le64(math.Float64bits(n.F))
	case "str":
		return jbString, append(varLen(len(n.S)), n.S...)
	case "date":
		p := le64(packedDT(n.Y, n.Mo, n.D, 0, 0, 0, 0))
		return jbOpaque, append(append([]byte{10}, varLen(8)...), p...)
	case "datetime":
		p := le64(packedDT(n.Y, n.Mo, n.D, n.H, n.Mi, n.Sec, n.Us))
		return jbOpaque, append(append([]byte{12}, varLen(8)...), p...)
	case "time":
		v := int64((uint64(n.H)<<12|uint64(n.Mi)<<6|uint64(n.Sec))<<24 | uint64(n.Us))
		if n.Neg {
			v = -v
		}
		return jbOpaque, append(append([]byte{11}, varLen(8)...), le64(uint64(v))...)
	case "dec":
		p := append([]byte{byte(n.P), byte(n.Sc)}, n.DecRaw...)
		return jbOpaque, append(append([]byte{246}, varLen(len(p))...), p...)
	case "obj", "arr":
		if !forceLarge {
			if b, ok := jbContainer(n, false, forceLarge); ok {
				if n.K == "obj" {
					return jbSmallObj, b
				}
				return jbSmallArr, b
			}
		}
		b, _ := jbContainer(n, true, forceLarge)
		if n.K == "obj" {
			return jbLargeObj, b
		}
		return jbLargeArr, b
	}
	panic("jbValue " + n.K)
}

func jbContainer(n *JNode, large, forceLarge bool) ([]byte, bool) {
	osz := 2
	if large {
		osz = 4
	}
	cnt := len(n.Vals)
	isObj := n.K == "obj"
	hdr := 2 * osz
	if isObj {
		hdr += cnt * (osz + 2)
	}
	hdr += cnt * (1 + osz)
	// keys
	var keyArea []byte
	keyOff := make([]int, cnt)
	if isObj {
		for i, k := range n.Keys {
			keyOff[i] = hdr + len(keyArea)
			keyArea = append(keyArea, k...)
		}
	}
	// values
	type ent struct {
		typ    byte
		inline []byte
		off    int
	}
	ents := make([]ent, cnt)
	var valArea []byte
	base := hdr + len(keyArea)
	for i, v := range n.Vals {
		t, data := jbValue(v, forceLarge)
		inl := t == jbLiteral || t == jbInt16 || t == jbUint16 || (large && (t == jbInt32 || t == jbUint32))
		if inl {
			pad := make([]byte, osz)
			copy(pad, data)
			ents[i] = ent{typ: t, inline: pad}
		} else {
			ents[i] = ent{typ: t, off: base + len(valArea)}
			valArea = append(valArea, data...)
		}
	}
	total := base + len(valArea)
	if !large && (total > 0xffff || cnt > 0xffff) {
		return nil, false
	}
	out := make([]byte, 0, total)
	out = append(out, leN(uint64(cnt), osz)...)
	out = append(out, leN(uint64(total), osz)...)
	if isObj {
		for i, k := range n.Keys {
			out = append(out, leN(uint64(keyOff[i]), osz)...)
			out = append(out, leN(uint64(len(k)), 2)...)
		}
	}
	for _, e := range ents {
		out = append(out, e.typ)
		if e.inline != nil {
			out = append(out, e.inline...)
		} else {
			out = append(out, leN(uint64(e.off), osz)...)
		}
	}
	out = append(out, keyArea...)
	out = append(out, valArea...)
	return out, true
}

// JsonbDoc serialises a whole document (type byte + data).
func JsonbDoc(n *JNode, forceLarge bool) []byte {
	t, d := jbValue(n, forceLarge)
	return append([]byte{t}, d...)
}

// ---- generator ---------------------------------------------------------------------------------

func jsonSafeString(r *rand.Rand, n int) string {
	const alpha = "abcdefghijklmnopqrstuvwxyzABCDEFGHIJKLMNOPQRSTUVWXYZ0123456789 _-.,:;()[]{}<>=+*/!?#$%&|~^@\xc3\xa9\xe4\xb8\xad"
	b := make([]byte, 0, n)
	for len(b) < n {
		i := r.Intn(len(alpha))
		if alpha[i] >= 0x80 {
			// keep multi-byte sequences whole
			if i+1 < len(alpha) && alpha[i] == 0xc3 {
				b = append(b, alpha[i], alpha[i+1])
			} else if alpha[i] == 0xe4 && i+2 < len(alpha) {
				b = append(b, alpha[i], alpha[i+1], alpha[i+2])
			}
			continue
		}
		b = append(b, alpha[i])
	}
	return string(b)
}

func genJInt(r *rand.Rand) *JNode {
	bounds := []int64{0, 1, -1, 32767, -32768, 32768, -32769, 65535, 65536, 2147483647, -2147483648, 2147483648, -2147483649,
		4294967295, 4294967296, 9223372036854775807, -9223372036854775808}
	var v int64
	if r.Intn(2) == 0 {
		v = bounds[r.Intn(len(bounds))]
	} else {
		v = int64(r.Uint64()) >> uint(r.Intn(64))
	}
	if r.Intn(4) == 0 {
		// unsigned kinds (MySQL uses them for values that do not fit the signed type of the same width / explicit unsigned)
		u := uint64(v)
		if r.Intn(2) == 0 {
			u = []uint64{32768, 65535, 2147483648, 4294967295, 9223372036854775808, 18446744073709551615}[r.Intn(6)]
		}
		switch {
		case u <= 0xffff:
			return &JNode{K: "int", W: "u16", U: u}
		case u <= 0xffffffff:
			return &JNode{K: "int", W: "u32", U: u}
		}
		return &JNode{K: "int", W: "u64", U: u}
	}
	switch {
	case v >= -32768 && v <= 32767:
		return &JNode{K: "int", W: "i16", I: v}
	case v >= -2147483648 && v <= 2147483647:
		return &JNode{K: "int", W: "i32", I: v}
	}
	return &JNode{K: "int", W: "i64", I: v}
}

func genJScalar(r *rand.Rand) *JNode {
	switch r.Intn(12) {
	case 0:
		return &JNode{K: "lit", Lit: pickS(r, "null", "true", "false")}
	case 1, 2, 3:
		return genJInt(r)
	case 4:
		f := math.Float64frombits(r.Uint64())
		for math.IsNaN(f) || math.IsInf(f, 0) {
			f = math.Float64frombits(r.Uint64())
		}
		if r.Intn(3) == 0 {
			f = []float64{0, 1, -1, 3.14159, 1e300, 5e-324, 0.1, 123456789.125}[r.Intn(8)]
		}
		return &JNode{K: "dbl", F: f}
	case 5, 6:
		return &JNode{K: "str", S: jsonSafeString(r, pick(r, 0, 1, 5, 127, 128, 300, r.Intn(40)))}
	case 7:
		return &JNode{K: "date", Y: r.Intn(10000), Mo: r.Intn(13), D: r.Intn(32)}
	case 8:
		us := r.Intn(1000000)
		if r.Intn(2) == 0 {
			us = 0
		}
		return &JNode{K: "time", Neg: r.Intn(2) == 0, H: pick(r, 0, 1, 23, 838, r.Intn(839)), Mi: r.Intn(60), Sec: r.Intn(60), Us: us}
	case 9:
		us := r.Intn(1000000)
		if r.Intn(2) == 0 {
			us = 0
		}
		return &JNode{K: "datetime", Y: r.Intn(10000), Mo: r.Intn(13), D: r.Intn(32), H: r.Intn(24), Mi: r.Intn(60), Sec: r.Intn(60), Us: us}
	case 10:
		p := 1 + r.Intn(65)
		ms := p
		if ms > 30 {
			ms = 30
		}
		s := r.Intn(ms + 1)
		d := genDecimalDigits(r, p, s, r.Intn(9))
		neg := r.Intn(2) == 0 && !allZero(d)
		return &JNode{K: "dec", P: p, Sc: s, DecRaw: decimalEncode(p, s, neg, d)}
	default:
		return &JNode{K: "str", S: jsonSafeString(r, r.Intn(12))}
	}
}

func genJDoc(r *rand.Rand, depth, fan int) *JNode {
	if depth == 0 || r.Intn(3) == 0 {
		return genJScalar(r)
	}
	n := r.Intn(fan + 1)
	if r.Intn(2) == 0 {
		a := &JNode{K: "arr"}
		for i := 0; i < n; i++ {
			a.Vals = append(a.Vals, genJDoc(r, depth-1, fan))
		}
		return a
	}
	o := &JNode{K: "obj"}
	seen := map[string]bool{}
	var keys []string
	for i := 0; i < n; i++ {
		k := jsonSafeString(r, 1+r.Intn(8))
		k = strings.Replace(k, ",", "_", -1)
		if !seen[k] {
			seen[k] = true
			keys = append(keys, k)
		}
	}
	// MySQL stores keys ordered by length, then bytes
	sort.Slice(keys, func(i, j int) bool {
		if len(keys[i]) != len(keys[j]) {
			return len(keys[i]) < len(keys[j])
		}
		return keys[i] < keys[j]
	})
	for _, k := range keys {
		o.Keys = append(o.Keys, k)
		o.Vals = append(o.Vals, genJDoc(r, depth-1, fan))
	}
	return o
}

// ---- parser of the library's output text -----------------------------------------------------------

type jparser struct {
	s   []byte
	pos int
	err string
}

func (p *jparser) fail(m string) M {
	if p.err == "" {
		p.err = fmt.Sprintf("%s at %d", m, p.pos)
	}
	return M{"k": "bad"}
}

func (p *jparser) has(prefix string) bool { return bytes.HasPrefix(p.s[p.pos:], []byte(prefix)) }

func (p *jparser) quoted() ([]byte, bool) {
	if p.pos >= len(p.s) || p.s[p.pos] != '\'' {
		return nil, false
	}
	end := bytes.IndexByte(p.s[p.pos+1:], '\'')
	if end < 0 {
		return nil, false
	}
	out := p.s[p.pos+1 : p.pos+1+end]
	p.pos += end + 2
	return out, true
}

func numNode(t []byte) M {
	isd := bytes.ContainsAny(t, "Ee.") || bytes.Contains(t, []byte("Inf")) || bytes.Contains(t, []byte("NaN"))
	fb := []byte{}
	if isd {
		if f, err := strconv.ParseFloat(string(t), 64); err == nil {
			fb = le64(math.Float64bits(f))
		}
	}
	return M{"k": "num", "text": B(t), "isdbl": isd, "fbits": B(fb)}
}

// cast parses CAST('text' AS TYPE) with pos at "CAST(".
func (p *jparser) cast() M {
	p.pos += len("CAST(")
	q, ok := p.quoted()
	if !ok {
		return p.fail("cast: quoted text expected")
	}
	if !p.has(" AS ") {
		return p.fail("cast: AS expected")
	}
	p.pos += 4
	// type name up to the matching ')'
	depth := 0
	start := p.pos
	for p.pos < len(p.s) {
		c := p.s[p.pos]
		if c == '(' {
			depth++
		}
		if c == ')' {
			if depth == 0 {
				break
			}
			depth--
		}
		p.pos++
	}
	if p.pos >= len(p.s) {
		return p.fail("cast: unterminated")
	}
	typ := p.s[start:p.pos]
	p.pos++
	return M{"k": "cast", "t": B(typ), "text": B(q)}
}

func (p *jparser) nested() M {
	switch {
	case p.has("JSON_OBJECT("):
		p.pos += len("JSON_OBJECT(")
		kv := []M{}
		for {
			if p.has(")") {
				p.pos++
				return M{"k": "obj", "kv": kv}
			}
			if len(kv) > 0 {
				if !p.has(",") {
					return p.fail("object: comma expected")
				}
				p.pos++
			}
			k, ok := p.quoted()
			if !ok {
				return p.fail("object: key expected")
			}
			if !p.has(",") {
				return p.fail("object: comma after key expected")
			}
			p.pos++
			v := p.nested()
			if p.err != "" {
				return v
			}
			kv = append(kv, M{"key": B(k), "v": v})
		}
	case p.has("JSON_ARRAY("):
		p.pos += len("JSON_ARRAY(")
		xs := []M{}
		for {
			if p.has(")") {
				p.pos++
				return M{"k": "arr", "xs": xs}
			}
			if len(xs) > 0 {
				if !p.has(",") {
					return p.fail("array: comma expected")
				}
				p.pos++
			}
			v := p.nested()
			if p.err != "" {
				return v
			}
			xs = append(xs, v)
		}
	case p.has("CAST("):
		return p.cast()
	case p.has("'"):
		q, ok := p.quoted()
		if !ok {
			return p.fail("string")
		}
		return M{"k": "str", "s": B(q)}
	case p.has("null"):
		p.pos += 4
		return M{"k": "lit", "v": "null"}
	case p.has("true"):
		p.pos += 4
		return M{"k": "lit", "v": "true"}
	case p.has("false"):
		p.pos += 5
		return M{"k": "lit", "v": "false"}
	}
	start := p.pos
	for p.pos < len(p.s) && p.s[p.pos] != ',' && p.s[p.pos] != ')' {
		p.pos++
	}
	if p.pos == start {
		return p.fail("value expected")
	}
	return numNode(p.s[start:p.pos])
}

// parseJSONText parses the text printed for a whole document.
func parseJSONText(txt []byte) (M, string) {
	p := &jparser{s: txt}
	var out M
	switch {
	case p.has("JSON_OBJECT(") || p.has("JSON_ARRAY("):
		out = p.nested()
	case p.has("CAST(CAST("):
		p.pos += len("CAST(")
		out = p.cast()
		if !p.has(" AS JSON)") {
			p.fail("top-level cast: AS JSON expected")
		} else {
			p.pos += len(" AS JSON)")
		}
	case p.has("'"):
		q, ok := p.quoted()
		if !ok {
			return M{"k": "bad"}, "top-level: unterminated quote"
		}
		switch {
		case len(q) >= 2 && q[0] == '"' && q[len(q)-1] == '"':
			out = M{"k": "str", "s": B(q[1 : len(q)-1])}
		case string(q) == "null" || string(q) == "true" || string(q) == "false":
			out = M{"k": "lit", "v": string(q)}
		default:
			out = numNode(q)
		}
	default:
		return M{"k": "bad"}, "top-level: unrecognised"
	}
	if p.err == "" && p.pos != len(p.s) {
		p.err = fmt.Sprintf("trailing text at %d", p.pos)
	}
	return out, p.err
}

func init() {
	modes["c14"] = modeC14
}

func jsonCase(e *Env, doc *JNode, forceLarge bool, cls string) {
	bin := JsonbDoc(doc, forceLarge)
	lb := 4
	raw := append(leN(uint64(len(bin)), lb), bin...)
	var out []byte
	var n int
	var err error
	rec := safely(func() { out, n, err = replication.CellBytes(raw, 0, replication.TypeJSON, uint16(lb), false) })
	obs := M{"err": err != nil, "panic": rec.panicked, "len": n, "rawlen": len(raw), "textlen": len(out)}
	perr := ""
	tree := M{"k": "bad"}
	if err == nil && !rec.panicked {
		tree, perr = parseJSONText(out)
	}
	obs["tree"] = tree
	obs["parseErr"] = perr
	sample := out
	if len(sample) > 200 {
		sample = sample[:200]
	}
	obs["text"] = B(sample)
	emitCase(e, M{"fn": "json", "cls": cls, "large": bin[0] == jbLargeObj || bin[0] == jbLargeArr, "forced": forceLarge, "doc": doc.J(), "binlen": len(bin),
		"bin": B(bin), "obs": obs})
}

// poisonJSON decodes a few documents that cannot be rendered - a valid document cut short, one with an impossible type byte
// and one whose LAST member is an opaque value of a column type JSON cannot hold (so that the failure comes after part of
// the text has been produced) - and drops the results: what a column decodes to does not depend on what was decoded before.
func poisonJSON(e *Env) {
	doc := &JNode{K: "obj", Keys: []string{"a", "b", "c"}, Vals: []*JNode{genJInt(e.R), {K: "str", S: "partial output"}, {K: "arr", Vals: []*JNode{genJInt(e.R), genJInt(e.R)}}}}
	bin := JsonbDoc(doc, e.R.Intn(2) == 0)
	var bads [][]byte
	bads = append(bads, append([]byte(nil), bin[:len(bin)*2/3]...))
	b2 := append([]byte(nil), bin...)
	b2[len(b2)-1-e.R.Intn(4)] ^= 0xff
	bads = append(bads, b2)
	// {"a": 1, "b": [1, <opaque BIT(16)>]} and {"a": "x", "b": <opaque GEOMETRY>}: hand-made small objects
	for _, ft := range []byte{16, 255, 245, 0} {
		arr := []byte{2, 0, 0, 0, 5, 1, 0, 15, 0, 0} // small array: 2 elements, size (patched below), int16 1 inlined, opaque at offset (patched)
		arr[8] = byte(len(arr))                      // offset of the opaque value
		arr = append(arr, ft, 2, 0xab, 0xcd)         // field type, length 2, two bytes
		arr[2] = byte(len(arr))
		obj := []byte{2, 0, 0, 0, 0, 0, 1, 0, 0, 0, 1, 0, 5, 7, 0, 2, 0, 0} // 2 members: key entries (offset,len), value entries: int16 7 inlined, small array at offset
		ko := len(obj)
		obj = append(obj, 'a', 'b')
		obj[4], obj[8] = byte(ko), byte(ko+1)
		obj[16] = byte(len(obj))
		obj = append(obj, arr...)
		obj[2] = byte(len(obj))
		bads = append(bads, append([]byte{0}, obj...))
	}
	for _, b := range bads {
		raw := append(leN(uint64(len(b)), 4), b...)
		safely(func() { replication.CellBytes(raw, 0, replication.TypeJSON, 4, false) })
	}
}

func modeC14(e *Env) {
	// (a) every scalar kind at top level and inside a one-element array / object, small and forced-large
	for i := 0; i < e.N(300, 6000); i++ {
		s := genJScalar(e.R)
		jsonCase(e, s, false, "scalar-top")
		jsonCase(e, &JNode{K: "arr", Vals: []*JNode{s}}, i%2 == 0, "scalar-in-array")
		jsonCase(e, &JNode{K: "obj", Keys: []string{"k"}, Vals: []*JNode{s}}, i%2 == 1, "scalar-in-object")
	}
	// (b) recursive documents
	for i := 0; i < e.N(150, 4000); i++ {
		depth := 1 + e.R.Intn(6)
		fan := pick(e.R, 1, 2, 3, 5, 8)
		if i%50 == 0 {
			depth, fan = 2, 40
		}
		doc := genJDoc(e.R, depth, fan)
		if i%3 == 1 {
			poisonJSON(e)
		}
		jsonCase(e, doc, false, "document")
		if i%3 == 0 {
			jsonCase(e, doc, true, "document-forced-large")
		}
	}
	// (c) real large documents (>= 64KB): long arrays of strings / objects with many keys
	for i := 0; i < e.N(2, 12); i++ {
		a := &JNode{K: "arr"}
		for len(a.Vals) < 700+e.R.Intn(200) {
			if e.R.Intn(5) == 0 {
				a.Vals = append(a.Vals, genJDoc(e.R, 2, 3))
			} else {
				a.Vals = append(a.Vals, &JNode{K: "str", S: jsonSafeString(e.R, 90+e.R.Intn(40))})
			}
		}
		doc := a
		if i%2 == 1 {
			doc = &JNode{K: "obj", Keys: []string{"a", "big"}, Vals: []*JNode{genJInt(e.R), a}}
		}
		jsonCase(e, doc, false, "document-64k")
	}
}

// ---- C20: Transaction -> JSON ----------------------------------------------------------------------

func init() {
	modes["c20"] = modeC20
}

func jstr(v interface{}) (B, bool) {
	s, ok := v.(string)
	return B(s), ok
}

func projJSONRows(v interface{}) ([][]M, bool) {
	out := [][]M{}
	if v == nil {
		return out, true // a nil slice marshals as null
	}
	arr, ok := v.([]interface{})
	if !ok {
		return nil, false
	}
	for _, r := range arr {
		row := []M{}
		rm, ok := r.(map[string]interface{})
		if !ok {
			return nil, false
		}
		cols, ok := rm["Columns"].([]interface{})
		if !ok && rm["Columns"] != nil {
			return nil, false
		}
		for _, c := range cols {
			cm, ok := c.(map[string]interface{})
			if !ok {
				return nil, false
			}
			name, ok1 := jstr(cm["filed"])
			typ, ok2 := jstr(cm["type"])
			ie, ok3 := cm["isEmpty"].(bool)
			if !ok1 || !ok2 || !ok3 {
				return nil, false
			}
			d, has := cm["data"]
			if !has {
				return nil, false
			}
			m := M{"name": name, "type": typ, "isEmpty": ie, "isNull": d == nil, "data": B(nil)}
			if d != nil {
				ds, ok := d.(string)
				if !ok {
					return nil, false
				}
				m["data"] = B(ds)
			}
			row = append(row, m)
		}
		out = append(out, row)
	}
	return out, true
}

func posFromJSON(v interface{}) (M, bool) {
	m, ok := v.(map[string]interface{})
	if !ok {
		return nil, false
	}
	f, ok1 := m["filename"].(string)
	o, ok2 := m["offset"].(json.Number)
	if !ok1 || !ok2 {
		return nil, false
	}
	return M{"file": B(f), "off": o.String()}, true
}

// txJSONCase marshals the transaction with the real MarshalJSON, parses the bytes back with encoding/json and
// records both the projection of the Go value and the projection of the parsed JSON.
var lastJSONTx *gobinlog.Transaction // the transaction serialised by the previous case

func txJSONCase(e *Env, t *gobinlog.Transaction, cls string) {
	in := projTx(t)
	var raw []byte
	var err error
	// the library's own marshaler is called directly, as an application that writes transactions to a file or a queue does,
	// and its result is looked at only after ANOTHER transaction has been serialised: the text that was handed out stays
	// the text of this transaction
	rec := safely(func() {
		var e2 error
		raw, e2 = json.Marshal(t) // (what encoding/json says about the marshaler's output)
		err = e2
		if m, ok := interface{}(t).(json.Marshaler); ok {
			raw, err = m.MarshalJSON()
			if err == nil {
				err = e2
			}
			if lm, ok := interface{}(lastJSONTx).(json.Marshaler); ok && lastJSONTx != nil {
				lm.MarshalJSON()
			}
		}
	})
	lastJSONTx = t
	obs := M{"err": err != nil, "panic": rec.panicked, "wellformed": false, "shape": false}
	empty := M{"file": B(nil), "off": "0"}
	obs["now"], obs["next"], obs["evs"] = empty, empty, []M{}
	if err == nil && !rec.panicked {
		dec := json.NewDecoder(bytes.NewReader(raw))
		dec.UseNumber()
		var v map[string]interface{}
		if dec.Decode(&v) == nil {
			obs["wellformed"] = true
			now, ok1 := posFromJSON(v["nowPosition"])
			next, ok2 := posFromJSON(v["nextPosition"])
			_, ok3 := v["timestamp"].(string)
			shape := ok1 && ok2 && ok3
			evs := []M{}
			arr, _ := v["events"].([]interface{})
			for _, x := range arr {
				em, ok := x.(map[string]interface{})
				if !ok {
					shape = false
					break
				}
				nm, _ := em["name"].(map[string]interface{})
				db, okd := jstr(nm["db"])
				tb, okt := jstr(nm["table"])
				typ, oky := jstr(em["type"])
				_, oks := em["timestamp"].(string)
				ev := M{"typ": typ, "db": db, "tbl": tb}
				sql, hasSQL := em["sql"]
				ev["hasSql"] = hasSQL
				ev["sql"] = B(nil)
				if hasSQL {
					s, _ := jstr(sql)
					ev["sql"] = s
				}
				_, hasRows := em["rowValues"]
				ev["hasRows"] = hasRows
				vals, okv := projJSONRows(em["rowValues"])
				ids, oki := projJSONRows(em["rowIdentifies"])
				if !okv || !oki {
					vals, ids = [][]M{}, [][]M{}
				}
				ev["vals"], ev["ids"] = vals, ids
				shape = shape && okd && okt && oky && oks && okv && oki
				evs = append(evs, ev)
			}
			if ok1 {
				obs["now"] = now
			}
			if ok2 {
				obs["next"] = next
			}
			obs["evs"] = evs
			obs["shape"] = shape
		}
	}
	emitCase(e, M{"fn": "txjson", "cls": cls, "tx": in, "obs": obs})
}

var allTypeCodes = []byte{0, 1, 2, 3, 4, 5, 6, 7, 8, 9, 10, 11, 12, 13, 14, 15, 16, 17, 18, 19, 245, 246, 247, 248, 249, 250, 251, 252, 253, 254, 255}

// jsonSpecials: every byte / sequence that a JSON string encoder must treat specially, used one at a time so that a
// fast path keyed on "some other special character is present" cannot hide a missed case.
var jsonSpecials = []string{"\\", "\"", "/", "\b", "\f", "\n", "\r", "\t", "\x00", "\x1f", "\x7f", "<", ">", "&", "'", "\xe2\x80\xa8", "\xe2\x80\xa9",
	"\xc3\xa9", "\xf0\x9f\x98\x80", "\xff", "\x80", "\xc0\xaf", "\xed\xa0\x80", "\\u0041", "\\n", "\\\"", "%", "{", "}", "[", "]", ":", ",",
	// valid UTF-8 at the edges of the encoding: the replacement character itself (U+FFFD), noncharacters, the first / last
	// code point of every length, the code points around the surrogate gap, other C0 / C1 controls and DEL
	"\xef\xbf\xbd", "\xef\xbf\xbe", "\xef\xbf\xbf", "\xf4\x8f\xbf\xbf", "\xc2\x80", "\xdf\xbf", "\xe0\xa0\x80", "\xed\x9f\xbf", "\xee\x80\x80",
	"\xf0\x90\x80\x80", "\xf3\xa0\x80\x81", "\x01", "\x07", "\x0b", "\x0e", "\x10", "\x1b", "\xc2\x85", "\xc2\x9f",
	// text that already looks escaped (a stored JSON or HTML document): a literal backslash followed by what an encoder itself
	// produces for <, >, &, the line separators and quotes
	"\\u003c", "\\u003e", "\\u0026", "\\u2028", "\\u2029", "\\u0000", "\\\\u003c", "&lt;", "&amp;", "{\"a\":\"\\u003cb\\u003e\"}"}

func oneSpecial(r *rand.Rand) []byte {
	sp := jsonSpecials[r.Intn(len(jsonSpecials))]
	switch r.Intn(5) {
	case 0:
		return []byte(sp)
	case 1:
		return []byte("C:" + sp + "temp" + sp + "new")
	case 2:
		return []byte("50" + sp)
	case 3:
		return []byte(sp + "x")
	}
	return []byte("a" + sp + "b" + jsonSpecials[r.Intn(len(jsonSpecials))] + "c")
}

func nastyBytes(r *rand.Rand) []byte {
	if r.Intn(3) == 0 {
		return oneSpecial(r)
	}
	switch r.Intn(8) {
	case 0:
		return nil
	case 1:
		return []byte{}
	case 2:
		return []byte("plain ascii")
	case 3:
		return []byte("quote\" back\\slash <tag> & 'single'   \t\n\r\x00\x01\x1f")
	case 4:
		return []byte("h\xc3\xa9llo \xe4\xb8\xad\xe6\x96\x87 \xf0\x9f\x98\x80")
	case 5:
		return []byte{0xff, 0xfe, 0x80, 'a', 0xc3, 0x28, 0xed, 0xa0, 0x80, 0xf4, 0x90, 0x80, 0x80, 0xc0, 0xaf}
	}
	return randBytes(r, r.Intn(30))
}

func modeC20(e *Env) {
	// (a) transactions produced end to end
	cfgs := allCfgs()
	var kept []*gobinlog.Transaction
	for i := 0; i < e.N(10, 120); i++ {
		l := GenLog(e.R, cfgs[i%len(cfgs)], quickGP(), nil)
		if i%3 == 1 {
			l = redeclaredLog(e.R, cfgs[i%len(cfgs)])
		}
		m, err := NewMaster()
		if err != nil {
			panic(err)
		}
		mapper := &vfMapper{tables: l.Tables()}
		st, _ := gobinlog.NewStreamer(m.DSN(), 5, mapper)
		start := l.Boundaries()[0]
		st.SetBinlogPosition(gobinlog.Position{Filename: start.File, Offset: int64(start.Off)})
		plan := &ServePlan{End: "eof"}
		plan.Resolve = func(c Cmd) ([][]byte, bool) {
			evs, ok := l.Served(Pos{string(c.File), c.Off})
			var pk [][]byte
			for _, ev := range evs {
				pk = append(pk, ev.Bytes)
			}
			return pk, ok
		}
		m.SetPlan(plan)
		st.Stream(context.Background(), func(t *gobinlog.Transaction) error { kept = append(kept, t); return nil })
		st.Error()
		m.Close()
	}
	for _, t := range kept {
		txJSONCase(e, t, "end-to-end")
	}
	// (b) synthetic transactions with arbitrary bytes in names, SQL and data
	for i := 0; i < e.N(300, 8000); i++ {
		t := &gobinlog.Transaction{
			NowPosition:  gobinlog.Position{Filename: string(nastyBytes(e.R)), Offset: int64(e.R.Uint64() >> uint(e.R.Intn(64)))},
			NextPosition: gobinlog.Position{Filename: string(nastyBytes(e.R)), Offset: int64(e.R.Uint32())},
			Timestamp:    int64(e.R.Uint32()),
		}
		if i%7 == 0 {
			t.NowPosition.Offset = -int64(e.R.Intn(100))
		}
		for j := 0; j < e.R.Intn(4); j++ {
			ev := &gobinlog.StreamEvent{Type: gobinlog.StatementType(e.R.Intn(14)), Timestamp: int64(e.R.Uint32()),
				Table: gobinlog.NewMysqlTableName(string(nastyBytes(e.R)), string(nastyBytes(e.R)))}
			if e.R.Intn(3) == 0 {
				ev.Query.SQL = string(nastyBytes(e.R))
				ev.Query.Database = string(nastyBytes(e.R))
			} else {
				mk := func() []*gobinlog.RowData {
					if e.R.Intn(5) == 0 {
						return nil
					}
					rows := []*gobinlog.RowData{}
					for r := 0; r < e.R.Intn(3); r++ {
						rd := &gobinlog.RowData{}
						for c := 0; c < e.R.Intn(5); c++ {
							cd := &gobinlog.ColumnData{Filed: string(nastyBytes(e.R)), Type: gobinlog.ColumnType(allTypeCodes[e.R.Intn(len(allTypeCodes))]),
								IsEmpty: e.R.Intn(4) == 0, Data: nastyBytes(e.R)}
							rd.Columns = append(rd.Columns, cd)
						}
						rows = append(rows, rd)
					}
					return rows
				}
				ev.RowValues, ev.RowIdentifies = mk(), mk()
			}
			t.Events = append(t.Events, ev)
		}
		txJSONCase(e, t, "synthetic")
	}
	// (d) every special sequence once, whatever the seed: in the SQL text, in a name and in a value
	for _, sp := range jsonSpecials {
		t := &gobinlog.Transaction{NowPosition: gobinlog.Position{Filename: "f" + sp, Offset: 4}, NextPosition: gobinlog.Position{Filename: "f", Offset: 9}}
		ev := &gobinlog.StreamEvent{Type: gobinlog.StatementUpdate, Table: gobinlog.NewMysqlTableName("d"+sp, sp+"t")}
		ev.RowValues = []*gobinlog.RowData{{Columns: []*gobinlog.ColumnData{
			{Filed: "c" + sp, Type: gobinlog.ColumnType(252), Data: []byte("a" + sp + "b")},
			{Filed: "e", Type: gobinlog.ColumnType(15), Data: []byte(sp)}}}}
		q := &gobinlog.StreamEvent{Type: gobinlog.StatementInsert, Table: gobinlog.NewMysqlTableName("d", "t")}
		q.Query.SQL = "insert into t values ('" + sp + "')"
		q.Query.Database = "db" + sp
		t.Events = []*gobinlog.StreamEvent{ev, q}
		txJSONCase(e, t, "every-special")
	}
	// (c) long valid UTF-8 values: multi-byte characters at every alignment (a prefix of 0..3 ASCII bytes, then characters of
	// 2, 3 or 4 bytes), so that whatever offset an implementation may cut or sniff a value at falls inside a character
	for _, n := range []int{300, 600, 1100, 2100, 4200, 8300} {
		for pre := 0; pre < 4; pre++ {
			for wi, ch := range []string{"\u00e9", "\u4e2d", "\U0001f600"} {
				if !e.Thorough() && (n/100+pre+wi)%2 == 1 {
					continue
				}
				b := []byte(strings.Repeat("a", pre))
				for len(b) < n {
					b = append(b, ch...)
				}
				t := &gobinlog.Transaction{NowPosition: gobinlog.Position{Filename: "f", Offset: 4}, NextPosition: gobinlog.Position{Filename: "f", Offset: 9}}
				ev := &gobinlog.StreamEvent{Type: gobinlog.StatementInsert, Table: gobinlog.NewMysqlTableName("d", "t")}
				ev.RowValues = []*gobinlog.RowData{{Columns: []*gobinlog.ColumnData{
					{Filed: "c", Type: gobinlog.ColumnType(252), Data: b},
					{Filed: string(b[:pre+60]), Type: gobinlog.ColumnType(15), Data: append([]byte("x"), b...)}}}}
				q := &gobinlog.StreamEvent{Type: gobinlog.StatementCreate, Table: gobinlog.NewMysqlTableName("d", "t")}
				q.Query.SQL = "create table t /* " + string(b) + " */"
				t.Events = []*gobinlog.StreamEvent{ev, q}
				txJSONCase(e, t, "long-utf8")
			}
		}
	}
}

// jsonStates serialises the transaction with the library's marshalers and reports, for every cell of every row image,
// how it came out: "absent" (isEmpty), "null" (data is JSON null), "str" (data is a JSON string), "bad" otherwise.
func jsonStates(t *gobinlog.Transaction) []M {
	out := []M{}
	raw, err := json.Marshal(t)
	if err != nil {
		return []M{{"err": true, "vals": [][]string{}, "ids": [][]string{}, "tname": ""}}
	}
	var top map[string]interface{}
	if json.Unmarshal(raw, &top) != nil {
		return []M{{"err": true, "vals": [][]string{}, "ids": [][]string{}, "tname": ""}}
	}
	evs, _ := top["events"].([]interface{})
	img := func(v interface{}) [][]string {
		res := [][]string{}
		rows, _ := v.([]interface{})
		for _, r := range rows {
			row := []string{}
			rm, _ := r.(map[string]interface{})
			cols, _ := rm["Columns"].([]interface{})
			for _, c := range cols {
				cm, _ := c.(map[string]interface{})
				st := "bad"
				ie, ok := cm["isEmpty"].(bool)
				d, has := cm["data"]
				switch {
				case !ok || !has:
				case ie:
					st = "absent"
				case d == nil:
					st = "null"
				default:
					if _, isStr := d.(string); isStr {
						st = "str"
					}
				}
				row = append(row, st)
			}
			res = append(res, row)
		}
		return res
	}
	for _, x := range evs {
		em, _ := x.(map[string]interface{})
		tn, _ := em["type"].(string)
		out = append(out, M{"err": false, "vals": img(em["rowValues"]), "ids": img(em["rowIdentifies"]), "tname": tn})
	}
	return out
}

// modeC20s: C20 end to end - histories from C01's generator streamed through the real Stream(); every delivery is
// serialised and the rendering of each cell (absent / null / string) is compared with the binlog's rows by the replay.
func modeC20s(e *Env) {
	cfgs := allCfgs()
	for i := 0; i < e.N(24, 300); i++ {
		gp := quickGP()
		gp.SimpleCols = i%2 == 0 // CHAR / VARCHAR columns: empty strings are frequent
		l := GenLog(e.R, cfgs[i%len(cfgs)], gp, nil)
		if i%12 == 1 {
			l = verbsLog(e.R, cfgs[i%len(cfgs)], gp) // statements the library has no kind for: none of them may surface as "unknown"
		}
		RunStreamScenario(e.Rec, &StreamScenario{ID: i + 1, Fam: "c20s", Log: l, Start: l.Boundaries()[0], ServerID: 20,
			Attempts: []AttemptPlan{defaultAttempt()}, Note: "json-states", JSONStates: true})
	}
}

func init() { modes["c20s"] = modeC20s }

// redeclaredLog: one table (fixed name "dj.tj", fixed column names) whose column types change between transactions - the same
// id and name announced again after an ALTER ... MODIFY, and the name announced under a new id - so that, within one
// process, the same table and column names are serialised with different types.
func redeclaredLog(r *rand.Rand, cfg WireCfg) *Log {
	l := &Log{Cfg: cfg}
	gp := quickGP()
	ncols := 1 + r.Intn(4)
	mk := func(id uint64) *Table {
		t := &Table{ID: id, DB: "dj", Name: "tj"}
		for c := 0; c < ncols; c++ {
			col := randomCol(r)
			col.Name, col.Nullable, col.Uns = "c"+itoa(c), true, false
			t.Cols = append(t.Cols, col)
		}
		return t
	}
	variants := []*Table{mk(50), mk(50), mk(51), mk(50)}
	f := &LogFile{Name: "mysql-bin.000001"}
	l.Files = []*LogFile{f}
	ts := uint32(1600000000)
	for x := 0; x < 4+r.Intn(4); x++ {
		t := variants[x%len(variants)]
		u := &Unit{U: "txxid", Evs: []*Ev{{K: "query", TS: ts, Cat: "begin", DB: "d", SQL: "BEGIN"}, {K: "tablemap", TS: ts, Tbl: t},
			genRowsEv(r, pickS(r, "write", "update", "delete"), t, gp, ts), {K: "xid", TS: ts}}}
		f.Units = append(f.Units, u)
		ts++
	}
	l.Layout()
	return l
}
