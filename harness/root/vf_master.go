package gobinlog_test

// Simulated MySQL master: enough of the client/server protocol for the real driver
// (handshake v10, auth OK, COM_QUERY -> OK, COM_BINLOG_DUMP -> packet stream, COM_QUIT),
// with a serve plan (packets, pacing, faults) per connection. DESIGN.md Appendix A.1.

import (
	"encoding/binary"
	"io"
	"net"
	"sync"
	"time"
)

// Cmd is a command as decoded by the master.
type Cmd struct {
	Kind     string // query dump quit other
	SQL      []byte
	ServerID uint32
	File     []byte
	Off      uint32
	Flags    uint16
	Raw      byte
	OK       bool // the master answered the command with OK (queries)
	Conn     int  // on which connection of the attempt the command arrived (1 = the first one accepted)
}

// Fault is a master-side fault injected into the packet stream.
type Fault struct {
	Kind string // close reset short outofseq err eof
	At   int    // before sending packet index At (== len(packets): after the last one)
	Code uint16
	Msg  string
}

// ServePlan says what the master does on the next connection.
type ServePlan struct {
	ConnFault string // "" | handshake_close | handshake_err | set_err | dump_close | dump_err
	Fault     *Fault
	Lockstep  bool
	Gate      func(i int) // lockstep: called before packet i is sent
	OnSent    func(i int) // after packet i was written
	// Resolve maps the dump request to the packets to send (event payloads without the 0x00 prefix),
	// ok=false: answer with ERR 1236.
	Resolve func(c Cmd) (pkts [][]byte, ok bool)
	End     string // "eof": EOF packet after the last packet; "idle": keep the connection open
}

// ConnRecord is what the master observed on one connection.
type ConnRecord struct {
	mu         sync.Mutex
	Cmds       []Cmd
	Sent       int
	PeerClosed chan struct{} // closed when the peer closed the socket (read returned EOF/err)
	Done       chan struct{} // closed when the master finished with the connection
	Accepted   bool          // a connection was accepted for this record
	NConn      int           // connections accepted for this record (a Stream call makes one)
	doneOnce   sync.Once
	closedAt   time.Time
}

func (c *ConnRecord) addCmd(x Cmd) { c.mu.Lock(); c.Cmds = append(c.Cmds, x); c.mu.Unlock() }
func (c *ConnRecord) addCmdOn(nconn int, x Cmd) { x.Conn = nconn; c.addCmd(x) }
func (c *ConnRecord) snapshot() ([]Cmd, int) {
	c.mu.Lock()
	defer c.mu.Unlock()
	return append([]Cmd(nil), c.Cmds...), c.Sent
}

// Master is the listener.
type Master struct {
	ln    net.Listener
	addr  string
	mu    sync.Mutex
	plan  *ServePlan
	conns []*ConnRecord
	open  []net.Conn
	wg    sync.WaitGroup
}

func NewMaster() (*Master, error) {
	ln, err := net.Listen("tcp", "127.0.0.1:0")
	if err != nil {
		return nil, err
	}
	m := &Master{ln: ln, addr: ln.Addr().String()}
	go m.acceptLoop(ln)
	return m, nil
}

// Pause stops listening (connection attempts are refused); Resume listens again on the same address.
func (m *Master) Pause() { m.ln.Close() }
func (m *Master) Resume() error {
	var err error
	for i := 0; i < 200; i++ {
		var ln net.Listener
		ln, err = net.Listen("tcp", m.addr)
		if err == nil {
			m.ln = ln
			go m.acceptLoop(ln)
			return nil
		}
		time.Sleep(5 * time.Millisecond)
	}
	return err
}

func (m *Master) Addr() string { return m.addr }
func (m *Master) DSN() string {
	return "u:p@tcp(" + m.Addr() + ")/db?maxAllowedPacket=67108864"
}
// CloseConns drops every connection accepted so far.
func (m *Master) CloseConns() {
	m.mu.Lock()
	for _, c := range m.open {
		c.Close()
	}
	m.mu.Unlock()
}

func (m *Master) Close() {
	m.ln.Close()
	m.mu.Lock()
	for _, c := range m.open {
		c.Close()
	}
	m.mu.Unlock()
}

// SetPlan installs the plan for the next connection and returns the record that connection will fill.
func (m *Master) SetPlan(p *ServePlan) *ConnRecord {
	m.mu.Lock()
	defer m.mu.Unlock()
	m.plan = p
	rec := &ConnRecord{PeerClosed: make(chan struct{}), Done: make(chan struct{})}
	m.conns = append(m.conns, rec)
	return rec
}

func (m *Master) acceptLoop(ln net.Listener) {
	for {
		c, err := ln.Accept()
		if err != nil {
			return
		}
		m.mu.Lock()
		p := m.plan
		var rec *ConnRecord
		if len(m.conns) > 0 {
			rec = m.conns[len(m.conns)-1]
		}
		if p == nil || rec == nil {
			m.mu.Unlock()
			c.Close()
			continue
		}
		m.open = append(m.open, c)
		m.mu.Unlock()
		rec.mu.Lock()
		rec.Accepted = true
		rec.NConn++
		nc := rec.NConn
		rec.mu.Unlock()
		go m.serve(c, p, rec, nc)
	}
}

type pconn struct {
	c   net.Conn
	seq byte
}

func (p *pconn) write(payload []byte) error {
	hdr := []byte{byte(len(payload)), byte(len(payload) >> 8), byte(len(payload) >> 16), p.seq}
	p.seq++
	_, err := p.c.Write(append(hdr, payload...))
	return err
}

func (p *pconn) read() ([]byte, error) {
	hdr := make([]byte, 4)
	if _, err := io.ReadFull(p.c, hdr); err != nil {
		return nil, err
	}
	n := int(hdr[0]) | int(hdr[1])<<8 | int(hdr[2])<<16
	p.seq = hdr[3] + 1
	b := make([]byte, n)
	if _, err := io.ReadFull(p.c, b); err != nil {
		return nil, err
	}
	return b, nil
}

func handshakeV10() []byte {
	b := []byte{10}
	b = append(b, "5.7.30-verif"...)
	b = append(b, 0)
	b = append(b, 1, 0, 0, 0)
	b = append(b, "abcdefgh"...)
	b = append(b, 0)
	caps := uint32(0x200 | 0x8000 | 0x80000 | 0x1 | 0x4 | 0x8 | 0x2000)
	b = append(b, byte(caps), byte(caps>>8))
	b = append(b, 33)
	b = append(b, 2, 0)
	b = append(b, byte(caps>>16), byte(caps>>24))
	b = append(b, 21)
	b = append(b, make([]byte, 10)...)
	b = append(b, "ijklmnopqrst"...)
	b = append(b, 0)
	b = append(b, "mysql_native_password"...)
	b = append(b, 0)
	return b
}

func okPacket() []byte { return []byte{0, 0, 0, 2, 0, 0, 0} }

func errPacket(code uint16, msg string) []byte {
	b := []byte{0xff, byte(code), byte(code >> 8), '#'}
	b = append(b, "HY000"...)
	return append(b, msg...)
}

func eofPacket() []byte { return []byte{0xfe, 0, 0, 2, 0} }

func (m *Master) serve(c net.Conn, p *ServePlan, rec *ConnRecord, nconn int) {
	defer rec.doneOnce.Do(func() { close(rec.Done) })
	pc := &pconn{c: c}
	peerClosed := func() {
		select {
		case <-rec.PeerClosed:
		default:
			rec.closedAt = time.Now()
			close(rec.PeerClosed)
		}
	}
	// drain: wait until the peer closes (records the fact) or we are told to stop.
	drain := func() {
		buf := make([]byte, 256)
		for {
			if _, err := c.Read(buf); err != nil {
				peerClosed()
				return
			}
		}
	}
	if p.ConnFault == "handshake_close" {
		c.Close()
		return
	}
	if p.ConnFault == "handshake_err" {
		pc.write(errPacket(1040, "Too many connections"))
		c.Close()
		return
	}
	if err := pc.write(handshakeV10()); err != nil {
		c.Close()
		return
	}
	if _, err := pc.read(); err != nil { // handshake response
		peerClosed()
		c.Close()
		return
	}
	if err := pc.write(okPacket()); err != nil {
		c.Close()
		return
	}
	for {
		cmd, err := pc.read()
		if err != nil {
			peerClosed()
			c.Close()
			return
		}
		if len(cmd) == 0 {
			continue
		}
		switch cmd[0] {
		case 0x01:
			rec.addCmdOn(nconn, Cmd{Kind: "quit"})
			// wait for the close
			drain()
			c.Close()
			return
		case 0x03:
			if p.ConnFault == "set_drop_once" && nconn == 1 {
				// the connection dies before the statement is answered
				rec.addCmdOn(nconn, Cmd{Kind: "query", SQL: append([]byte(nil), cmd[1:]...), OK: false})
				c.Close()
				return
			}
			rec.addCmdOn(nconn, Cmd{Kind: "query", SQL: append([]byte(nil), cmd[1:]...), OK: p.ConnFault != "set_err"})
			if p.ConnFault == "set_err" {
				pc.write(errPacket(1193, "Unknown system variable 'binlog_checksum'"))
				continue
			}
			pc.write(okPacket())
			if p.ConnFault == "set_then_reset" {
				// the connection dies right after the SET was answered: the client's next write (the dump request) fails
				if tc, ok := c.(*net.TCPConn); ok {
					tc.SetLinger(0)
				}
				c.Close()
				return
			}
		case 0x12:
			if len(cmd) < 11 {
				rec.addCmdOn(nconn, Cmd{Kind: "other", Raw: cmd[0]})
				continue
			}
			d := Cmd{Kind: "dump",
				Off:      binary.LittleEndian.Uint32(cmd[1:5]),
				Flags:    binary.LittleEndian.Uint16(cmd[5:7]),
				ServerID: binary.LittleEndian.Uint32(cmd[7:11]),
				File:     append([]byte(nil), cmd[11:]...)}
			rec.addCmdOn(nconn, d)
			if p.ConnFault == "dump_close" {
				c.Close()
				return
			}
			if p.ConnFault == "dump_err" {
				pc.write(errPacket(1236, "Could not find first log file name in binary log index file"))
				drain()
				c.Close()
				return
			}
			m.stream(c, pc, p, rec, d, drain)
			return
		default:
			rec.addCmdOn(nconn, Cmd{Kind: "other", Raw: cmd[0]})
			pc.write(okPacket())
		}
	}
}

func (m *Master) stream(c net.Conn, pc *pconn, p *ServePlan, rec *ConnRecord, d Cmd, drain func()) {
	pkts, ok := p.Resolve(d)
	if !ok {
		pc.write(errPacket(1236, "Client requested master to start replication from impossible position"))
		drain()
		c.Close()
		return
	}
	// watch for a peer close while we are sending / idling
	go drain()
	burst := make([]byte, 0, 4096)
	framed, flushed := 0, 0 // event packets framed / flushed so far
	flush := func() error {
		if len(burst) == 0 {
			return nil
		}
		_, err := c.Write(burst)
		burst = burst[:0]
		if err == nil {
			for ; flushed < framed; flushed++ {
				rec.mu.Lock()
				rec.Sent = flushed + 1
				rec.mu.Unlock()
				if p.OnSent != nil {
					p.OnSent(flushed)
				}
			}
		}
		return err
	}
	frame := func(payload []byte) {
		hdr := []byte{byte(len(payload)), byte(len(payload) >> 8), byte(len(payload) >> 16), pc.seq}
		pc.seq++
		burst = append(burst, hdr...)
		burst = append(burst, payload...)
	}
	doFault := func(f *Fault, next []byte) bool {
		switch f.Kind {
		case "close":
			flush()
			c.Close()
		case "reset":
			flush()
			if tc, ok := c.(*net.TCPConn); ok {
				tc.SetLinger(0)
			}
			c.Close()
		case "short":
			flush()
			payload := append([]byte{0}, next...)
			if next == nil {
				payload = make([]byte, 40)
			}
			hdr := []byte{byte(len(payload)), byte(len(payload) >> 8), byte(len(payload) >> 16), pc.seq}
			c.Write(append(hdr, payload[:len(payload)/2]...))
			c.Close()
		case "outofseq":
			pc.seq += 3
			payload := append([]byte{0}, next...)
			if next == nil {
				payload = make([]byte, 40)
			}
			frame(payload)
			flush()
			<-rec.PeerClosed
			c.Close()
		case "err":
			frame(errPacket(f.Code, f.Msg))
			flush()
			<-rec.PeerClosed
			c.Close()
		case "eof":
			frame(eofPacket())
			flush()
			<-rec.PeerClosed
			c.Close()
		default:
			return false
		}
		return true
	}
	for i, pk := range pkts {
		if p.Fault != nil && p.Fault.At == i {
			if p.Lockstep && p.Gate != nil {
				p.Gate(i) // lock-step: the terminal packet arrives on its own, after everything before it was consumed
			}
			if doFault(p.Fault, pk) {
				return
			}
		}
		if p.Lockstep {
			if p.Gate != nil {
				p.Gate(i)
			}
			frame(append([]byte{0}, pk...))
			framed = i + 1
			// count the packet as sent BEFORE the write: the peer may receive and process it before Write returns
			// (the C02 causal monitor needs "the master has started sending it")
			rec.mu.Lock()
			rec.Sent = i + 1
			rec.mu.Unlock()
			if err := flush(); err != nil {
				<-rec.PeerClosed
				c.Close()
				return
			}
		} else {
			frame(append([]byte{0}, pk...))
			framed = i + 1
		}
	}
	if p.Fault != nil && p.Fault.At >= len(pkts) {
		if p.Lockstep && p.Gate != nil {
			p.Gate(len(pkts))
		}
		if doFault(p.Fault, nil) {
			return
		}
	}
	if p.End == "eof" {
		frame(eofPacket())
	}
	flush()
	<-rec.PeerClosed
	c.Close()
}
