package gobinlog_test

// Runner for the stream family: drives the real Streamer against the simulated master and
// records what is observable (handler calls, return values, commands on the master's socket,
// goroutines, socket close) as ndjson lines in the vocabulary of DESIGN.md Appendix B.

import (
	"context"
	"encoding/json"
	"errors"
	"fmt"
	"io"
	"math"
	"os"
	"runtime"
	"strconv"
	"strings"
	"sync"
	"sync/atomic"
	"time"

	gobinlog "github.com/Breeze0806/gobinlog"
)

func jsonUnmarshal(d []byte, v interface{}) error { return json.Unmarshal(d, v) }

type wrappedErr struct{ inner error }

func (w *wrappedErr) Error() string { return "vf: sink failed: " + w.inner.Error() }
func (w *wrappedErr) Unwrap() error { return w.inner }

// nopLogger discards everything. Its Errorf/Infof can be made slow (logDelay, nanoseconds): a slow log sink is a
// legitimate timing of the library's goroutines (the reader logs before it publishes its stop reason), used by the
// C05/C06 schedule classes as a black-box scheduling gate.
type nopLogger struct{}

var logDelay int64
var logFastG int64 // goroutine whose log calls are not delayed (the one that called Stream)

var logDelayCaller int64 // delay also for the goroutine that called Stream (its log line before the dump request)

func slowLog() {
	if d := atomic.LoadInt64(&logDelay); d > 0 && int64(goid()) != atomic.LoadInt64(&logFastG) {
		time.Sleep(time.Duration(d))
		return
	}
	if d := atomic.LoadInt64(&logDelayCaller); d > 0 {
		time.Sleep(time.Duration(d))
	}
}

func (nopLogger) Errorf(string, ...interface{}) { slowLog() }
func (nopLogger) Infof(string, ...interface{})  { slowLog() }
func (nopLogger) Debugf(string, ...interface{}) {}
func (nopLogger) Print(...interface{})          {}
func (nopLogger) Printf(string, ...interface{}) {}

func init() {
	gobinlog.SetLogger(nopLogger{})
	gobinlog.VerifSetHook(vfHook)
}

// ---- verif hooks: trace points and scheduler gates ----------------------------------------------------

// The hook function must not synchronise the library's goroutines with each other (a mutex or a shared counter here would
// order them at every hook point and hide data races of the library from the race detector): its configuration is read
// with one atomic load of a pointer that only the harness stores.
type hookCfg struct {
	rec  *Recorder // non-nil: record hook lines
	att  int
	seed uint64 // non-zero: pseudo-random delays at hook points (schedule fuzzing)
}

var hookCfgV atomic.Value // *hookCfg

// vfHook is installed into the library (build tag verif). It records the point (per-process sequence number from
// the recorder, goroutine id) and, when schedule fuzzing is on, delays the calling goroutine by a pseudo-random
// amount: every hook point becomes a place where the scheduler may switch.
func vfHook(point string) {
	cfg, _ := hookCfgV.Load().(*hookCfg)
	if cfg == nil {
		cfg = &hookCfg{}
	}
	rec, att, seed := cfg.rec, cfg.att, cfg.seed
	n := uint64(time.Now().UnixNano())
	if rec != nil {
		rec.Emit(M{"ev": "hook", "att": att, "p": point, "g": goid()})
	}
	if sc := currentSched(); sc != nil {
		sc.enter(point) // scripted attempt: block until the script lets this goroutine take its next step
	}
	if seed != 0 {
		x := seed ^ (n * 0x9e3779b97f4a7c15)
		for i := 0; i < len(point); i++ {
			x = (x ^ uint64(point[i])) * 0x100000001b3
		}
		x ^= x >> 29
		switch x % 8 {
		case 0:
			time.Sleep(2 * time.Millisecond)
		case 1:
			time.Sleep(200 * time.Microsecond)
		case 2:
			runtime.Gosched()
		case 3:
			time.Sleep(6 * time.Millisecond)
		}
	}
}

func setHooks(rec *Recorder, att int, seed uint64) {
	hookCfgV.Store(&hookCfg{rec: rec, att: att, seed: seed})
}

// once goroutines have been seen left behind in several attempts the verdict is settled: keep the rest of the run short
var leaksSeen int
var socksLeftOpen int // attempts after which the connection to the master was still open when the wait ran out

func noteLeak(n int) {
	if n > 0 {
		leaksSeen++
	}
}

func leakBound() time.Duration {
	if leaksSeen >= 10 {
		return 300 * time.Millisecond
	}
	if leaksSeen >= 3 && waitBound > 1500*time.Millisecond {
		return 1500 * time.Millisecond
	}
	return waitBound
}

// waitBound is "bounded time" (observed latencies are milliseconds).
var waitBound = 8 * time.Second
var stuckCount int

// ---- trace recorder ---------------------------------------------------------------------

type Recorder struct {
	mu  sync.Mutex
	w   *os.File
	seq int
}

func NewRecorder(path string) (*Recorder, error) {
	flag := os.O_CREATE | os.O_WRONLY | os.O_TRUNC
	if os.Getenv("VERIF_APPEND") != "" {
		flag = os.O_CREATE | os.O_WRONLY | os.O_APPEND
	}
	f, err := os.OpenFile(path, flag, 0644)
	if err != nil {
		return nil, err
	}
	return &Recorder{w: f}, nil
}

type M map[string]interface{}

func (r *Recorder) Emit(m M) {
	r.mu.Lock()
	defer r.mu.Unlock()
	r.seq++
	m["seq"] = r.seq
	b, err := json.Marshal(m)
	if err != nil {
		panic(err)
	}
	r.w.Write(b)
	r.w.Write([]byte{'\n'})
}

func (r *Recorder) Close() { r.w.Close() }

// ---- mapper -----------------------------------------------------------------------------

type vfColumn struct {
	name string
	uns  bool
}

func (c vfColumn) Field() string       { return c.name }
func (c vfColumn) IsUnSignedInt() bool { return c.uns }

type vfTable struct {
	name gobinlog.MysqlTableName
	cols []gobinlog.MysqlColumn
}

func (t vfTable) Name() gobinlog.MysqlTableName   { return t.name }
func (t vfTable) Columns() []gobinlog.MysqlColumn { return t.cols }

type vfMapper struct {
	mu     sync.Mutex
	tables map[string]*Table
	fault  string // "" | "err:db.t" | "mismatch:db.t"
	rec    *Recorder
	att    int
	calls  int
	cancel func() // non-nil: called just before a planned failure (the mapper stops the application, then fails)
}

func (m *vfMapper) MysqlTable(name gobinlog.MysqlTableName) (gobinlog.MysqlTable, error) {
	m.mu.Lock()
	defer m.mu.Unlock()
	m.calls++
	key := name.DbName + "." + name.TableName
	res := "ok"
	defer func() {
		if m.rec != nil {
			m.rec.Emit(M{"ev": "mapperCall", "att": m.att, "db": B(name.DbName), "tbl": B(name.TableName), "res": res})
		}
	}()
	if m.cancel != nil && (m.fault == "err:"+key || m.fault == "mismatch:"+key) {
		m.cancel()
	}
	if m.fault == "err:"+key {
		res = "err"
		return nil, errors.New("vf: mapper failure for " + key)
	}
	t, ok := m.tables[key]
	if !ok {
		res = "err"
		return nil, errors.New("vf: unknown table " + key)
	}
	vt := vfTable{name: gobinlog.NewMysqlTableName(t.DB, t.Name)}
	for _, c := range t.Cols {
		vt.cols = append(vt.cols, vfColumn{c.Name, c.Uns})
	}
	if m.fault == "mismatch:"+key {
		res = "mismatch"
		vt.cols = append(vt.cols, vfColumn{"extra", false})
	}
	return vt, nil
}

// ---- projections ---------------------------------------------------------------------------

func posJ(p gobinlog.Position) M {
	return M{"file": B(p.Filename), "off": strconv.FormatInt(p.Offset, 10)}
}

func projRow(rd *gobinlog.RowData) []M {
	out := []M{}
	if rd == nil {
		return out
	}
	for _, c := range rd.Columns {
		st := "val"
		switch {
		case c.IsEmpty:
			st = "absent"
		case c.Data == nil:
			st = "null"
		}
		out = append(out, M{"name": B(c.Filed), "typ": int(c.Type), "st": st, "data": B(append([]byte{}, c.Data...)),
			"hasdata": c.Data != nil, "fbits": B(floatBits(byte(c.Type), c.Data))})
	}
	return out
}

func projTx(t *gobinlog.Transaction) M {
	evs := []M{}
	for _, e := range t.Events {
		vals := [][]M{}
		for _, r := range e.RowValues {
			vals = append(vals, projRow(r))
		}
		ids := [][]M{}
		for _, r := range e.RowIdentifies {
			ids = append(ids, projRow(r))
		}
		cs := []int{}
		if c := e.Query.Charset; c != nil {
			cs = []int{int(c.Client), int(c.Conn), int(c.Server)}
		}
		evs = append(evs, M{"typ": B(e.Type.String()), "db": B(e.Table.DbName), "tbl": B(e.Table.TableName),
			"sql": B(e.Query.SQL), "qdb": B(e.Query.Database), "cs": cs, "ts": strconv.FormatInt(e.Timestamp, 10), "vals": vals, "ids": ids})
	}
	return M{"now": posJ(t.NowPosition), "next": posJ(t.NextPosition), "ts": strconv.FormatInt(t.Timestamp, 10), "evs": evs}
}

func goid() int {
	var buf [64]byte
	n := runtime.Stack(buf[:], false)
	f := strings.Fields(string(buf[:n]))
	if len(f) >= 2 {
		id, _ := strconv.Atoi(f[1])
		return id
	}
	return -1
}

// libraryGoroutines returns, by goroutine id, the goroutines that have a frame of the library or of its
// driver (function names only), excluding the calling goroutine and harness goroutines.
func libraryGoroutines() map[int]string {
	buf := make([]byte, 1<<21)
	n := runtime.Stack(buf, true)
	out := map[int]string{}
	me := goid()
	for _, g := range strings.Split(string(buf[:n]), "\n\n") {
		f := strings.Fields(g)
		if len(f) < 2 || f[0] != "goroutine" {
			continue
		}
		id, _ := strconv.Atoi(f[1])
		if id == me {
			continue
		}
		var fns []string
		lib := false
		for _, ln := range strings.Split(g, "\n") {
			if strings.HasPrefix(ln, "github.com/Breeze0806/") {
				fn := strings.SplitN(ln, "(0x", 2)[0]
				fn = strings.TrimSuffix(fn, "(...)")
				fns = append(fns, fn)
				if !strings.Contains(fn, "gobinlog_test.") {
					lib = true
				}
			}
		}
		// a goroutine is the library's when its entry function (last frame) belongs to the library or its driver:
		// harness goroutines that are merely inside a library call (Stream, Error) are the caller's.
		if lib && len(fns) > 0 && !strings.Contains(fns[len(fns)-1], "gobinlog_test.") {
			out[id] = strings.Join(fns, " < ")
		}
	}
	return out
}

// waitNoNewLibraryGoroutines waits (bounded) until no library goroutine other than those in base remains.
func waitNoNewLibraryGoroutines(base map[int]string, d time.Duration) []string {
	deadline := time.Now().Add(d)
	for {
		gs := libraryGoroutines()
		var left []string
		for id, desc := range gs {
			if _, old := base[id]; !old {
				left = append(left, desc)
			}
		}
		if len(left) == 0 || time.Now().After(deadline) {
			return left
		}
		time.Sleep(2 * time.Millisecond)
	}
}

// ---- scenario & attempts ---------------------------------------------------------------------

// Inject replaces/inserts a packet in the served sequence (event-content faults).
type Inject struct {
	Kind string // rand intvar rowsquery invalid
	At   int    // packet index before which the packet is inserted
	Raw  []byte // for invalid: the bytes
}

// AttemptPlan is one Stream() call.
type AttemptPlan struct {
	Pacing       string // burst | lockstep
	End          string // eof | cancel (cancel once everything was consumed) | idle
	Fault        *Fault
	ConnFault    string
	Inject       *Inject
	HandlerErrAt int    // index (within the attempt) of the transaction whose handler call fails; -1
	HandlerErrKind string // which error value the handler returns: "" (an ordinary error) | canceled | deadline | eof | wrapped
	MapperFault  string // "" | err:db.t | mismatch:db.t
	CancelAtTx   int    // cancel the context from inside the handler of transaction index k (before it returns); -1
	CancelAtPkt  int    // cancel when packet index i has been sent; -1
	StallAfter   int    // the master falls silent (connection open) after packet index i; -1: it sends everything
	Detain       bool   // scripted attempt whose script goes on in the next attempt: goroutines still parked at a hook point when the
	// script of this attempt ends (the reader, if it has not left yet) stay parked, and the next attempt's script decides when they go on
	Log          *Log   // non-nil: this attempt is served from this log instead of the scenario's (two-attempt scripts)
	HandlerBlock int    // tx index whose handler blocks until released by the stop cause; -1
	HandlerBlockMs int  // if > 0 the blocked handler resumes by itself after this many milliseconds
	ReleaseDelayMs int  // the blocked handler keeps running this long AFTER the stop cause (cancel) before it returns
	Scribble     bool   // handler overwrites every delivered byte slice after snapshotting
	ScribbleLate bool   // the same, but only after the last attempt of the scenario has ended (all transactions are overwritten one after
	// the other, in delivery order, before everything is re-read): values shared between two kept transactions show
	Dead         bool   // connect to a dead address (no listener)
	CancelAfterReturn bool // the caller cancels its context after Stream returned, before calling Error()
	LogDelayMs        int  // the log sink takes this long per Errorf/Infof call (slow sink: shifts the reader's timing)
	SkipError         bool // the caller does not call Error() after this attempt (Stream already returned an error)
	HookTrace         bool // record the library's hook points of this attempt (implementation-level trace)
	HookFuzz          uint64 // non-zero: seeded pseudo-random delays at every hook point
	Expire            bool       // the attempt's context ends by DEADLINE (Err() = context.DeadlineExceeded) wherever the plan cancels it
	Deadline          bool       // the attempt's context also carries a (far) deadline: context.WithTimeout instead of WithCancel only
	MapperCancels     bool       // the table mapper cancels the attempt's context just before it fails (MapperFault)
	LeakFirst         bool       // look for goroutines left behind BEFORE the first Error() call (a caller need not call Error() for them to go away)
	Script            [][]string // non-nil: a behaviour of MC_Conn (Gen_Conn.tla) replayed with the hook points as scheduler gates
}

func defaultAttempt() AttemptPlan {
	return AttemptPlan{Pacing: "burst", End: "eof", HandlerErrAt: -1, CancelAtTx: -1, CancelAtPkt: -1, HandlerBlock: -1, StallAfter: -1}
}

func (a AttemptPlan) J() M {
	m := M{"pacing": a.Pacing, "end": a.End, "connfault": orNone(a.ConnFault), "handlerErrAt": a.HandlerErrAt,
		"mapperFault": orNone(a.MapperFault), "handlerErrKind": orNone(a.HandlerErrKind), "cancelAtTx": a.CancelAtTx, "cancelAtPkt": a.CancelAtPkt, "stallAfter": a.StallAfter, "detain": a.Detain,
		"handlerBlock": a.HandlerBlock, "releaseDelayMs": a.ReleaseDelayMs, "scribble": a.Scribble, "scribbleLate": a.ScribbleLate, "dead": a.Dead, "cancelAfterReturn": a.CancelAfterReturn,
		"logDelayMs": a.LogDelayMs, "skipError": a.SkipError, "hookTrace": a.HookTrace, "hookFuzz": a.HookFuzz != 0, "scripted": a.Script != nil, "leakFirst": a.LeakFirst, "mapperCancels": a.MapperCancels, "deadline": a.Deadline, "expire": a.Expire, "script": scriptJ(a.Script)}
	if a.Fault != nil {
		m["fault"] = M{"kind": a.Fault.Kind, "at": a.Fault.At, "code": int(a.Fault.Code), "msg": B(a.Fault.Msg)}
	} else {
		m["fault"] = M{"kind": "none", "at": -1, "code": 0, "msg": B("")}
	}
	if a.Inject != nil {
		m["inject"] = M{"kind": a.Inject.Kind, "at": a.Inject.At, "raw": B(a.Inject.Raw)}
	} else {
		m["inject"] = M{"kind": "none", "at": -1, "raw": B(nil)}
	}
	return m
}

func orNone(s string) string {
	if s == "" {
		return "none"
	}
	return s
}

// StreamScenario is one scenario of the stream family.
type StreamScenario struct {
	ID       int
	Fam      string
	Log      *Log
	Start    Pos
	ServerID uint32
	Attempts []AttemptPlan
	Resume   bool // C03: afterwards, one extra stream per delivered transaction
	Note     string
	// SetPosBefore: explicit SetBinlogPosition calls made before the given attempt index
	SetPosBefore map[int]Pos
	// MapperTables overrides what the table mapper knows (default: every table announced in the log)
	MapperTables map[string]*Table
	// Log2 / Start2: a second history, served to the attempts whose plan carries it (AttemptPlan.Log), from Start2 on
	Log2   *Log
	Start2 Pos
	// MapperAfter[k]: what the table mapper knows from the moment the handler has been given the k-th transaction of the
	// scenario (0-based): the application has learned of a schema change
	MapperAfter map[int]map[string]*Table
	// RejectAfterP1 > 0: the history re-announces a table with a column count the mapper's table does not have; the
	// stream must end with an error after exactly this many transactions
	RejectAfterP1 int // (value + 1; 0 = none)
	// JSONStates: every delivery also carries, per cell, how json.Marshal rendered it (absent / null / str) - C20 end to end
	JSONStates bool
	// Model: for sessions generated by TLC (Gen_Session) the model's per-attempt predictions, copied into the scenario line
	Model interface{}
}

func cellsJ(cs []Cell, t *Table) []M {
	out := []M{}
	for i, c := range cs {
		tz := 0
		if t != nil && i < len(t.Cols) && c.St == "val" {
			tz = zoneOffsetFor(t.Cols[i].Typ, c.Bytes)
		}
		out = append(out, M{"st": c.St, "bytes": B(c.Bytes), "tz": tz})
	}
	return out
}

// zoneOffsetFor returns the UTC offset (seconds) in force in the process's local zone at the
// instant stored in a TIMESTAMP / TIMESTAMP2 cell (0 for other types). The tz database is data,
// not a rule the specification can state; this is the one trusted projection for zones.
func zoneOffsetFor(typ byte, raw []byte) int {
	var sec uint32
	switch {
	case typ == 7 && len(raw) >= 4:
		sec = uint32(raw[0]) | uint32(raw[1])<<8 | uint32(raw[2])<<16 | uint32(raw[3])<<24
	case typ == 17 && len(raw) >= 4:
		sec = uint32(raw[3]) | uint32(raw[2])<<8 | uint32(raw[1])<<16 | uint32(raw[0])<<24
	default:
		return 0
	}
	_, off := time.Unix(int64(sec), 0).Local().Zone()
	return off
}

// floatBits parses the text the library produced for a FLOAT/DOUBLE cell back to IEEE bits
// (little-endian, as in the row image); empty when not a float or not parseable.
func floatBits(typ byte, data []byte) []byte {
	switch typ {
	case 4:
		f, err := strconv.ParseFloat(string(data), 32)
		if err != nil {
			return nil
		}
		return le32(math.Float32bits(float32(f)))
	case 5:
		f, err := strconv.ParseFloat(string(data), 64)
		if err != nil {
			return nil
		}
		return le64(math.Float64bits(f))
	}
	return nil
}

func tableJ(t *Table) M {
	if t == nil {
		return M{"id": "0", "db": B(nil), "name": B(nil), "cols": []M{}}
	}
	cols := []M{}
	for _, c := range t.Cols {
		cols = append(cols, M{"name": B(c.Name), "typ": int(c.Typ), "metab": B(c.MetaB), "uns": c.Uns, "nullable": c.Nullable})
	}
	return M{"id": strconv.FormatUint(t.ID, 10), "db": B(t.DB), "name": B(t.Name), "cols": cols}
}

func intsJ(x []int) []int {
	if x == nil {
		return []int{}
	}
	return x
}

func evJ(e *Ev, withBytes bool) M {
	rows := []M{}
	for _, r := range e.Rows {
		rows = append(rows, M{"b": cellsJ(r.B, e.Tbl), "a": cellsJ(r.A, e.Tbl)})
	}
	m := M{"k": e.K, "ts": u32s(e.TS), "start": u32s(e.Start), "end": u32s(e.End), "fake": e.Fake,
		"cat": orNone(e.Cat), "sql": B(e.SQL), "db": B(e.DB), "cs": intsJ(e.CS), "tbl": tableJ(e.Tbl), "rows": rows,
		"rotfile": B(e.RotFile), "rotpos": strconv.FormatUint(e.RotPos, 10), "code": int(e.Code), "len": len(e.Bytes)}
	if withBytes {
		m["bytes"] = B(e.Bytes)
	}
	return m
}

func filesJ(l *Log, withBytes bool) []M {
	files := []M{}
	for _, f := range l.Files {
		units := []M{}
		for _, u := range f.Units {
			evs := []M{}
			for _, e := range u.Evs {
				evs = append(evs, evJ(e, withBytes))
			}
			units = append(units, M{"u": u.U, "evs": evs})
		}
		files = append(files, M{"name": B(f.Name), "base": u32s(f.Base), "first": u32s(f.Base + 4), "units": units, "prev": f.Prev != nil})
	}
	return files
}

func (sc *StreamScenario) J(withBytes bool) M {
	files := filesJ(sc.Log, withBytes)
	atts := []M{}
	for _, a := range sc.Attempts {
		atts = append(atts, a.J())
	}
	c := sc.Log.Cfg
	m := M{"ev": "scenario", "id": sc.ID, "fam": sc.Fam, "note": sc.Note,
		"cfg":   M{"cksum": c.Checksum, "rowsv2": c.RowsV2, "tidw": c.TidW, "gtid": c.Gtid, "ntypes": c.NTypes},
		"start": M{"file": B(sc.Start.File), "off": u32s(sc.Start.Off)}, "serverid": u32s(sc.ServerID),
		"files": files, "attempts": atts, "resume": sc.Resume, "rejectAfter": sc.RejectAfterP1 - 1}
	if sc.Model != nil {
		m["model"] = sc.Model
	}
	if sc.Log2 != nil {
		// a second history (another master, or the same one after its settings changed): served to the attempts whose plan names it
		m["files2"] = filesJ(sc.Log2, withBytes)
		m["start2"] = M{"file": B(sc.Start2.File), "off": u32s(sc.Start2.Off)}
	}
	return m
}

// ---- running ---------------------------------------------------------------------------------

type runState struct {
	rec      *Recorder
	master   *Master
	sc       *StreamScenario
	streamer *gobinlog.Streamer
	mapper   *vfMapper
	// delivered transactions over the whole scenario (for rereads / resume)
	kept []*gobinlog.Transaction
	snap []M
	abandoned bool // a Stream call never returned: the streamer object cannot be used any more
	// where the harness believes the streamer stands (only used to describe injected faults; set from the scenario start)
	streamerPosGuess Pos
	late             []int  // indices (in kept) of the transactions to be overwritten after the last attempt (ScribbleLate)
	carry            *Sched // scheduler handed from a scripted attempt to the next one (AttemptPlan.Detain)
}

// scriptJ renders a script as a list of "Action" / "Action:parameter" strings.
func scriptJ(steps [][]string) []string {
	out := []string{}
	for _, st := range steps {
		out = append(out, strings.Join(st, ":"))
	}
	return out
}

func errJ(err error) M {
	if err == nil {
		return M{"nil": true, "text": B(nil)}
	}
	return M{"nil": false, "text": B(err.Error())}
}

// scribbleTx overwrites every delivered value, each with a pattern of its own (a function of where the value sits in the
// transaction: event j, row r, column c, after / before image), so that two values sharing storage cannot both end up with
// the bytes they are expected to hold (spec: ScribbledEvs).
// expiringCtx is a context that ends the way a context with a deadline does: Done() closes and Err() is DeadlineExceeded.
type expiringCtx struct {
	mu   sync.Mutex
	done chan struct{}
	err  error
	at   time.Time
}

func (c *expiringCtx) Deadline() (time.Time, bool)       { return c.at, true }
func (c *expiringCtx) Done() <-chan struct{}             { return c.done }
func (c *expiringCtx) Value(key interface{}) interface{} { return nil }
func (c *expiringCtx) Err() error {
	c.mu.Lock()
	defer c.mu.Unlock()
	return c.err
}
func (c *expiringCtx) expire() {
	c.mu.Lock()
	defer c.mu.Unlock()
	if c.err == nil {
		c.err = context.DeadlineExceeded
		close(c.done)
	}
}

func scribbleTx(t *gobinlog.Transaction, pat byte) {
	for j, e := range t.Events {
		if c := e.Query.Charset; c != nil {
			// the session charset of a statement is delivered data too (a struct the handler may rewrite)
			p := int32(byte(int(pat) + 7*j))
			c.Client, c.Conn, c.Server = p, p+1, p+2
		}
		for side, rows := range [][]*gobinlog.RowData{e.RowValues, e.RowIdentifies} {
			for r, row := range rows {
				for c, col := range row.Columns {
					p := byte(int(pat) + 7*j + 3*r + c + 50*side)
					for i := range col.Data {
						col.Data[i] = p
					}
				}
			}
		}
	}
}

// injectPackets returns the packet list with the event-content fault inserted.
func injectPackets(log *Log, pkts [][]byte, inj *Inject, at uint32) [][]byte {
	if inj == nil {
		return pkts
	}
	var raw []byte
	var raw2 []byte
	switch inj.Kind {
	case "invalid":
		raw = inj.Raw
	case "badcell":
		// a well-formed UPDATE whose BEFORE image holds a cell the decoder cannot render (a JSON document with an opaque value of
		// a column type JSON cannot hold) while the after image is fine: a decode failure inside a decodable event
		t := badCellTable()
		tm := &Ev{K: "tablemap", TS: 1600000001, Tbl: t, Fake: true}
		log.layoutEv(tm, at)
		cell := func(doc []byte) Cell { return Cell{St: "val", Bytes: append(leN(uint64(len(doc)), 4), doc...)} }
		id := Cell{St: "val", Bytes: []byte{1, 0, 0, 0}}
		up := &Ev{K: "update", TS: 1600000001, Tbl: t, Fake: true, Rows: []RowPair{{B: []Cell{id, cell(unrenderableJSON())},
			A: []Cell{id, cell(JsonbDoc(&JNode{K: "str", S: "fine"}, false))}}}}
		log.layoutEv(up, at)
		raw, raw2 = tm.Bytes, up.Bytes
	default:
		e := &Ev{K: inj.Kind, TS: 1600000001, SQL: "insert into t values (1)", Fake: true}
		log.layoutEv(e, at)
		raw = e.Bytes
	}
	i := inj.At
	if i > len(pkts) {
		i = len(pkts)
	}
	out := append([][]byte{}, pkts[:i]...)
	out = append(out, raw)
	if raw2 != nil {
		out = append(out, raw2)
	}
	return append(out, pkts[i:]...)
}

func badCellTable() *Table {
	return &Table{ID: 9999, DB: "dq", Name: "tbad", Cols: []Col{
		{Name: "id", Typ: 3, Kind: "long", Nullable: true}, {Name: "doc", Typ: 245, MetaB: []byte{4}, Kind: "blob", P1: 4, Nullable: true}}}
}

// unrenderableJSON: {"a": 7, "b": [1, <opaque BIT(16)>]} in the small format - valid binary JSON holding an opaque value of a
// column type the printer has no rendering for.
func unrenderableJSON() []byte {
	arr := []byte{2, 0, 0, 0, 5, 1, 0, 15, 0, 0}
	arr[8] = byte(len(arr))
	arr = append(arr, 16, 2, 0xab, 0xcd)
	arr[2] = byte(len(arr))
	obj := []byte{2, 0, 0, 0, 0, 0, 1, 0, 0, 0, 1, 0, 5, 7, 0, 2, 0, 0}
	ko := len(obj)
	obj = append(obj, 'a', 'b')
	obj[4], obj[8] = byte(ko), byte(ko+1)
	obj[16] = byte(len(obj))
	obj = append(obj, arr...)
	obj[2] = byte(len(obj))
	return append([]byte{0}, obj...)
}

// runAttempt performs one Stream() call under plan a and records everything observable.
func (rs *runState) runAttempt(att int, a AttemptPlan, dsnOverride string) {
	rec := rs.rec
	sc := rs.sc
	alog := sc.Log
	if a.Log != nil {
		alog = a.Log
	}
	rs.mapper.mu.Lock()
	if a.Log != nil && sc.Log2 == a.Log {
		rs.mapper.tables = a.Log.Tables() // the other master's schema
	}
	if a.Inject != nil && a.Inject.Kind == "badcell" {
		nt := map[string]*Table{"dq.tbad": badCellTable()}
		for k, v := range rs.mapper.tables {
			nt[k] = v
		}
		rs.mapper.tables = nt
	}
	rs.mapper.fault = a.MapperFault
	rs.mapper.att = att
	rs.mapper.cancel = nil
	rs.mapper.mu.Unlock()

	ctx, cancel := context.WithCancel(context.Background())
	defer cancel()
	if a.Expire {
		// the caller's context ends by its deadline instead of a cancel call: wherever the plan cancels, the deadline "passes"
		ec := &expiringCtx{done: make(chan struct{}), at: time.Now().Add(time.Hour)}
		ctx, cancel = ec, ec.expire
	}
	if a.Deadline {
		// a caller may bound the whole run: the deadline is far away and never fires during the attempt
		var c2 context.CancelFunc
		ctx, c2 = context.WithTimeout(ctx, time.Hour)
		defer c2()
	}
	var cancelledAt time.Time
	var cmu sync.Mutex
	doCancel := func(why string) {
		cmu.Lock()
		if cancelledAt.IsZero() {
			cancelledAt = time.Now()
			rec.Emit(M{"ev": "cancel", "att": att, "why": why})
		}
		cmu.Unlock()
		cancel()
	}

	if a.MapperCancels {
		rs.mapper.mu.Lock()
		rs.mapper.cancel = func() { doCancel("mapper") }
		rs.mapper.mu.Unlock()
	}
	handlerRelease := make(chan struct{})
	var releaseOnce sync.Once
	release := func() { releaseOnce.Do(func() { close(handlerRelease) }) }
	txDone := make(chan int, 1024) // handler finished tx index k
	var smu sync.Mutex
	nServed := -1

	plan := &ServePlan{ConnFault: a.ConnFault, Fault: a.Fault, Lockstep: a.Pacing == "lockstep", End: a.End}
	plan.Resolve = func(c Cmd) ([][]byte, bool) {
		evs, ok := alog.Served(Pos{string(c.File), c.Off})
		if !ok {
			return nil, false
		}
		var pk [][]byte
		for _, e := range evs {
			pk = append(pk, e.Bytes)
		}
		pk = injectPackets(alog, pk, a.Inject, c.Off)
		if a.StallAfter >= 0 && a.StallAfter+1 < len(pk) {
			pk = pk[:a.StallAfter+1] // the master stalls here: nothing more arrives, the connection stays open
		}
		smu.Lock()
		nServed = len(pk)
		smu.Unlock()
		return pk, true
	}
	plan.OnSent = func(i int) {
		if a.CancelAtPkt == i {
			doCancel("pkt")
			if a.ReleaseDelayMs > 0 {
				go func() { time.Sleep(time.Duration(a.ReleaseDelayMs) * time.Millisecond); release() }()
			} else {
				release()
			}
		}
	}
	if plan.Lockstep {
		// lock-step: a packet is sent only after everything sent before it had time to be consumed
		plan.Gate = func(i int) {
			if i > 0 {
				time.Sleep(300 * time.Microsecond)
			}
		}
	}
	var connRec *ConnRecord
	if a.Dead {
		rs.master.Pause()
		defer func() {
			if err := rs.master.Resume(); err != nil {
				panic(err)
			}
		}()
	} else {
		connRec = rs.master.SetPlan(plan)
	}

	var sched *Sched
	scriptDone := make(chan struct{})
	if a.Script != nil {
		sched = rs.carry
		rs.carry = nil
		if sched == nil {
			sched = newSched()
		}
	} else {
		close(scriptDone)
		if rs.carry != nil {
			rs.carry.freeRun()
			setSched(nil)
			rs.carry = nil
		}
	}
	callerG := goid()
	var hmu sync.Mutex
	handled := 0
	inHandler := 0
	idx := 0
	handler := func(t *gobinlog.Transaction) error {
		k := idx
		idx++
		inHandler++
		sentSoFar := 0
		if connRec != nil {
			_, sentSoFar = connRec.snapshot()
		}
		pj := projTx(t)
		pj["ev"] = "deliver"
		pj["att"] = att
		pj["k"] = k
		pj["g"] = goid()
		pj["callerg"] = callerG
		pj["nested"] = inHandler
		pj["sent"] = sentSoFar
		pj["gk"] = len(rs.kept)
		pat := -1
		if a.Scribble || a.ScribbleLate {
			pat = 0x80 + len(rs.kept)%100
		}
		if a.ScribbleLate {
			rs.late = append(rs.late, len(rs.kept))
		}
		pj["pat"] = pat
		if sc.JSONStates {
			pj["jstates"] = jsonStates(t)
		}
		rec.Emit(pj)
		rs.kept = append(rs.kept, t)
		rs.snap = append(rs.snap, projTx(t))
		if mt, ok := sc.MapperAfter[len(rs.kept)-1]; ok {
			rs.mapper.mu.Lock()
			rs.mapper.tables = mt
			rs.mapper.mu.Unlock()
		}
		if a.Scribble {
			scribbleTx(t, byte(pat))
		}
		if a.CancelAtTx == k {
			doCancel("tx")
			if a.ReleaseDelayMs > 0 {
				// the handler is still busy for a while after the context was cancelled
				time.Sleep(time.Duration(a.ReleaseDelayMs) * time.Millisecond)
			}
		}
		if a.HandlerBlock == k {
			lim := waitBound
			if a.HandlerBlockMs > 0 {
				lim = time.Duration(a.HandlerBlockMs) * time.Millisecond
			}
			select {
			case <-handlerRelease:
			case <-time.After(lim):
			}
		}
		var err error
		if sched != nil {
			sched.enter("handler.enter") // the script decides when, and with what, the handler returns
			sched.mu.Lock()
			hf := sched.handlerFail
			sched.handlerFail = false
			sched.mu.Unlock()
			if hf {
				err = fmt.Errorf("vf: handler failure at %d (script)", k)
			}
		}
		if a.HandlerErrAt == k {
			// the handler may fail with ANY error value, including ones the library gives a meaning to elsewhere
			switch a.HandlerErrKind {
			case "canceled":
				err = context.Canceled
			case "deadline":
				err = context.DeadlineExceeded
			case "eof":
				err = io.EOF
			case "wrapped":
				err = &wrappedErr{context.Canceled}
			default:
				err = fmt.Errorf("vf: handler failure at %d", k)
			}
		}
		rec.Emit(M{"ev": "handlerReturn", "att": att, "k": k, "res": errJ(err)})
		hmu.Lock()
		handled++
		hmu.Unlock()
		inHandler--
		select {
		case txDone <- k:
		default:
		}
		return err
	}

	nbefore := -1
	if a.Inject != nil && len(alog.Files) > 0 {
		cur := rs.streamerPosGuess
		nbefore = nCommitsBefore(alog, cur, a.Inject.At)
	}
	if strings.HasPrefix(a.MapperFault, "mismatch:") || strings.HasPrefix(a.MapperFault, "err:") {
		// committing units completely served before the first table map of the faulted table
		name := a.MapperFault[strings.Index(a.MapperFault, ":")+1:]
		evs, _ := alog.Served(rs.streamerPosGuess)
		for i, ev := range evs {
			if ev.K == "tablemap" && ev.Tbl.DB+"."+ev.Tbl.Name == name {
				nbefore = nCommitsBefore(alog, rs.streamerPosGuess, i)
				break
			}
		}
	}
	atomic.StoreInt64(&logDelay, int64(a.LogDelayMs)*int64(time.Millisecond))
	defer atomic.StoreInt64(&logDelay, 0)
	if a.ConnFault == "set_then_reset" {
		// give the reset time to arrive before the library writes its dump request (it logs just before)
		atomic.StoreInt64(&logDelayCaller, int64(30*time.Millisecond))
		defer atomic.StoreInt64(&logDelayCaller, 0)
	}
	if a.HookTrace {
		setHooks(rec, att, a.HookFuzz)
	} else {
		setHooks(nil, att, a.HookFuzz)
	}
	defer setHooks(nil, 0, 0)
	rec.Emit(M{"ev": "attempt", "att": att, "plan": a.J(), "nbefore": nbefore})
	baseG := libraryGoroutines() // goroutines leaked by earlier attempts are not charged to this one
	if sched != nil {
		// ... but a reader the previous attempt's script left parked is: this attempt's script lets it go on, and it must leave
		sched.mu.Lock()
		for _, g := range sched.readers {
			delete(baseG, g)
		}
		sched.caller = 0
		sched.mu.Unlock()
	}
	t0 := time.Now()
	var err error
	done := make(chan struct{})
	go func() {
		// The handler must run on the goroutine that called Stream: call Stream here and compare ids.
		callerG = goid()
		atomic.StoreInt64(&logFastG, int64(callerG)) // only the library's own goroutines see the slow log sink
		if sched != nil {
			sched.mu.Lock()
			sched.caller = callerG
			sched.mu.Unlock()
			setSched(sched)
		}
		err = rs.streamer.Stream(ctx, handler)
		close(done)
	}()
	// what the script and the epilogue share: the return line is written once, Error() calls are numbered
	var retOnce sync.Once
	emitReturn := func() {
		retOnce.Do(func() {
			cmu.Lock()
			wasCancelled := !cancelledAt.IsZero()
			cmu.Unlock()
			rec.Emit(M{"ev": "streamReturn", "att": att, "returned": true, "res": errJ(err), "ms": int(time.Since(t0) / time.Millisecond),
				"cancelledBefore": wasCancelled})
		})
	}
	errCalls := 0
	detained := false
	var errPending <-chan error
	if sched != nil {
		sr := &scriptRun{s: sched, steps: a.Script, done: done, cancel: doCancel, emitReturn: func() { <-done; emitReturn() },
			callError: func() (<-chan error, int) {
				errCalls++
				call := errCalls
				ch := make(chan error, 1)
				go func() {
					// Error() cannot be gated (it has no hook point): its return is logged when it happens
					e := rs.streamer.Error()
					rec.Emit(M{"ev": "errorReturn", "att": att, "call": call, "returned": true, "res": errJ(e)})
					ch <- e
				}()
				return ch, errCalls
			},
			emitError: func(call int, e error) {},
			note: func(i int, want, got string) {
				rec.Emit(M{"ev": "scriptDiverged", "att": att, "step": i, "action": strings.Join(a.Script[i], ":"), "want": want, "got": got})
			}}
		followed := sr.run()
		errPending = sr.errPending
		detained = a.Detain && followed
		if detained {
			rs.carry = sched // whoever is parked stays parked: the next attempt's script goes on from here
		} else {
			sched.freeRun()
			setSched(nil)
		}
		rec.Emit(M{"ev": "script", "att": att, "followed": followed, "steps": len(a.Script)})
		close(scriptDone)
	}
	// "cancel" end: cancel once the master has sent everything and the streamer went quiet.
	if (a.End == "cancel" || a.End == "idle") && connRec != nil {
		go func() {
			<-scriptDone
			deadline := time.Now().Add(waitBound)
			for time.Now().Before(deadline) {
				_, s := connRec.snapshot()
				smu.Lock()
				n := nServed
				smu.Unlock()
				if n >= 0 && s >= n {
					break
				}
				select {
				case <-done:
					return
				default:
				}
				time.Sleep(time.Millisecond)
			}
			if a.End == "idle" {
				// the planned cancel point may not exist in this attempt (fewer packets / transactions are left
				// after earlier attempts): end the idle stream by cancellation anyway
				if a.Script != nil {
					time.Sleep(5 * time.Millisecond) // the script is over: nothing more will happen by itself
				} else {
					time.Sleep(100 * time.Millisecond)
				}
			} else {
				// everything was sent: give the parser time to consume it (until the handler has been called once per
				// committing unit served, bounded), then cancel
				want := nCommitsBefore(alog, rs.streamerPosGuess, 1<<30)
				limit := time.Now().Add(waitBound)
				for time.Now().Before(limit) {
					hmu.Lock()
					n := handled
					hmu.Unlock()
					if n >= want {
						break
					}
					time.Sleep(time.Millisecond)
				}
				time.Sleep(10 * time.Millisecond)
			}
			select {
			case <-done:
				// the stream has ended by itself in the meantime: nothing to end
				release()
				return
			default:
			}
			doCancel("end")
			release()
		}()
	}
	returned := true
	select {
	case <-done:
	case <-time.After(2 * waitBound):
		returned = false
	}
	el := time.Since(t0)
	if !returned {
		rec.Emit(M{"ev": "streamReturn", "att": att, "returned": false, "res": errJ(nil), "ms": int(el / time.Millisecond)})
		// once several calls have been seen stuck the verdict is settled; keep the rest of the run short
		if stuckCount++; stuckCount >= 3 && waitBound > 1500*time.Millisecond {
			waitBound = 1500 * time.Millisecond
		}
		release()
		doCancel("giveup")
		// Stream is stuck (already recorded). Try to get the goroutine back so that the run can go on: drop the
		// master's side of the connection; if that does not help either, abandon the call and the scenario.
		rs.master.CloseConns()
		select {
		case <-done:
		case <-time.After(waitBound):
			rs.abandoned = true
			rec.Emit(M{"ev": "abandoned", "att": att})
			return
		}
	} else {
		emitReturn()
	}
	release()
	tRet := time.Now()
	if a.CancelAfterReturn {
		doCancel("after-return")
	}

	leakDone := detained // a parked reader is the harness's doing: it is charged to the next attempt, which lets it go on
	if a.LeakFirst && errPending == nil && errCalls == 0 && !detained {
		// no library goroutine may remain after Stream returned, whether or not the caller goes on to call Error()
		left := waitNoNewLibraryGoroutines(baseG, leakBound())
		if left == nil {
			left = []string{}
		}
		noteLeak(len(left))
		rec.Emit(M{"ev": "goroutines", "att": att, "left": left, "n": len(left), "beforeError": true})
		leakDone = true
	}
	// an Error() call the script started and did not see return: it must return now
	if errPending != nil {
		select {
		case <-errPending:
		case <-time.After(waitBound):
			rec.Emit(M{"ev": "errorReturn", "att": att, "call": errCalls, "returned": false, "res": errJ(nil)})
			errCalls = 2
		}
	}
	// Error(): must return, whatever happened.
	for call := errCalls + 1; call <= 2 && !a.SkipError && !detained; call++ {
		ech := make(chan error, 1)
		go func() { ech <- rs.streamer.Error() }()
		select {
		case e := <-ech:
			rec.Emit(M{"ev": "errorReturn", "att": att, "call": call, "returned": true, "res": errJ(e)})
		case <-time.After(waitBound):
			rec.Emit(M{"ev": "errorReturn", "att": att, "call": call, "returned": false, "res": errJ(nil)})
			if stuckCount++; stuckCount >= 6 && waitBound > 1500*time.Millisecond {
				waitBound = 1500 * time.Millisecond
			}
			call = 3
		}
	}

	// socket closed by the peer, and no library goroutine left, within bounded time of the return
	if connRec != nil {
		closed := false
		select {
		case <-connRec.PeerClosed:
			closed = true
		case <-connRec.Done:
			// the master ended the connection itself (fault): peer-close is not observable
			select {
			case <-connRec.PeerClosed:
				closed = true
			default:
			}
		case <-time.After(func() time.Duration {
			// no connection ever reached the master (the attempt failed before or while dialling): there is no socket to
			// wait for
			connRec.mu.Lock()
			acc := connRec.Accepted
			connRec.mu.Unlock()
			if !acc && returned {
				return 150 * time.Millisecond
			}
			// once connections have been seen left open in several attempts the verdict is settled: keep the rest of the run short
			if socksLeftOpen >= 10 {
				return 250 * time.Millisecond
			}
			if socksLeftOpen >= 3 && waitBound > 1500*time.Millisecond {
				return 1500 * time.Millisecond
			}
			return waitBound
		}()):
		}
		masterEnded := false
		select {
		case <-connRec.Done:
			masterEnded = true
		default:
		}
		if !closed && !masterEnded {
			socksLeftOpen++
		}
		cmds, sent := connRec.snapshot()
		for i, c := range cmds {
			rec.Emit(M{"ev": "cmd", "att": att, "i": i, "kind": c.Kind, "sql": B(c.SQL), "serverid": u32s(c.ServerID),
				"file": B(c.File), "off": u32s(c.Off), "flags": int(c.Flags), "ok": c.OK, "conn": c.Conn})
		}
		rec.Emit(M{"ev": "sock", "att": att, "peerClosed": closed, "masterEnded": masterEnded, "sent": sent,
			"ms": int(time.Since(tRet) / time.Millisecond)})
	}
	if leakDone {
		return
	}
	left := waitNoNewLibraryGoroutines(baseG, leakBound())
	if left == nil {
		left = []string{}
	}
	noteLeak(len(left))
	rec.Emit(M{"ev": "goroutines", "att": att, "left": left, "n": len(left), "beforeError": false})
	// abandon leaked goroutines of this attempt so that the next attempt starts clean: closing the
	// master's side of the connection unblocks a reader stuck in ReadPacket.
	if len(left) > 0 && connRec != nil {
		// nothing more we can do black-box; they are reported.
	}
}

// RunStreamScenario runs all attempts of the scenario on ONE Streamer object.
func RunStreamScenario(rec *Recorder, sc *StreamScenario) {
	if only := os.Getenv("VERIF_ONLY"); only != "" && only != strconv.Itoa(sc.ID) {
		return
	}
	if from, _ := strconv.Atoi(os.Getenv("VERIF_FROM")); from > sc.ID {
		return
	}
	m, err := NewMaster()
	if err != nil {
		panic(err)
	}
	defer m.Close()
	rs := &runState{rec: rec, master: m, sc: sc, streamerPosGuess: sc.Start}
	rs.mapper = &vfMapper{tables: sc.Log.Tables(), rec: rec}
	if sc.MapperTables != nil {
		rs.mapper.tables = sc.MapperTables
	}
	rec.Emit(sc.J(false))
	st, _ := gobinlog.NewStreamer(m.DSN(), sc.ServerID, rs.mapper)
	st.SetBinlogPosition(gobinlog.Position{Filename: sc.Start.File, Offset: int64(sc.Start.Off)})
	rs.streamer = st
	for i, a := range sc.Attempts {
		if p, ok := sc.SetPosBefore[i]; ok {
			st.SetBinlogPosition(gobinlog.Position{Filename: p.File, Offset: int64(p.Off)})
			rs.streamerPosGuess = p
			rec.Emit(M{"ev": "setpos", "att": i, "pos": M{"file": B(p.File), "off": u32s(p.Off)}})
		}
		rs.runAttempt(i, a, "")
		if rs.abandoned {
			break
		}
	}
	if rs.carry != nil {
		rs.carry.freeRun()
		setSched(nil)
		rs.carry = nil
	}
	for _, k := range rs.late {
		scribbleTx(rs.kept[k], byte(0x80+k%100))
	}
	// re-read every delivered transaction after all stream activity ended (C08)
	for k, t := range rs.kept {
		pj := projTx(t)
		pj["ev"] = "reread"
		pj["gk"] = k
		rec.Emit(pj)
	}
	if sc.Resume {
		// one extra real stream per delivered transaction, started at its NextPosition (C03)
		full := append([]*gobinlog.Transaction{}, rs.kept...)
		for k, t := range full {
			st2, _ := gobinlog.NewStreamer(m.DSN(), sc.ServerID, rs.mapper)
			st2.SetBinlogPosition(t.NextPosition)
			rs2 := &runState{rec: rec, master: m, sc: sc, streamer: st2, mapper: rs.mapper}
			rec.Emit(M{"ev": "resume", "k": k, "from": posJ(t.NextPosition)})
			rs2.runAttempt(1000+k, defaultAttempt(), "")
		}
	}
	rec.Emit(M{"ev": "end", "id": sc.ID})
}

