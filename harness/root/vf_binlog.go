package gobinlog_test

// Independent binlog writer, written from the MySQL documentation (DESIGN.md Appendix A).
// It never uses replication/binlog_event_make.go.

import (
	"encoding/binary"
	"hash/crc32"
)

// Event type codes (MySQL binlog_event.h).
const (
	tUnknown       = 0
	tQuery         = 2
	tStop          = 3
	tRotate        = 4
	tIntVar        = 5
	tRand          = 13
	tFormatDesc    = 15
	tXid           = 16
	tTableMap      = 19
	tWriteRowsV1   = 23
	tUpdateRowsV1  = 24
	tDeleteRowsV1  = 25
	tHeartbeat     = 27
	tRowsQuery     = 29
	tWriteRowsV2   = 30
	tUpdateRowsV2  = 31
	tDeleteRowsV2  = 32
	tGtid          = 33
	tAnonymousGtid = 34
	tPreviousGtids = 35
)

// WireCfg is the wire-level configuration of a generated binlog.
type WireCfg struct {
	Checksum bool // CRC32 checksums on
	RowsV2   bool // v2 rows events (else v1)
	TidW     int  // table id width: 4 or 6
	Gtid     bool // GTID events on
	NTypes   int  // number of post-header length entries in the FDE
	SrvVer   string
	ServerID uint32
	// SizesFill != 0: the post-header lengths of the event types the harness does not write itself are arbitrary non-zero
	// values (a format description may describe any type with any header size)
	SizesFill byte
	// PadOnes: the unused high bits of the last byte of the columns-present bitmaps of rows events are set (the format
	// leaves them undefined; a reader must not count them)
	PadOnes bool
}

func (c WireCfg) postHeaderLens() []byte {
	n := c.NTypes
	if n < 35 {
		n = 35
	}
	h := make([]byte, n)
	if c.SizesFill != 0 {
		for i := range h {
			h[i] = byte(1 + (i*7+int(c.SizesFill))%200)
		}
	}
	set := func(typ int, v byte) {
		if typ-1 < n {
			h[typ-1] = v
		}
	}
	set(1, 56)
	set(tQuery, 13)
	set(tRotate, 8)
	set(tIntVar, 0)
	set(tFormatDesc, byte(57+n))
	set(tXid, 0)
	tm := byte(8)
	r1 := byte(8)
	r2 := byte(10)
	if c.TidW == 4 {
		tm, r1 = 6, 6
	}
	set(tTableMap, tm)
	set(tWriteRowsV1, r1)
	set(tUpdateRowsV1, r1)
	set(tDeleteRowsV1, r1)
	set(tWriteRowsV2, r2)
	set(tUpdateRowsV2, r2)
	set(tDeleteRowsV2, r2)
	set(tGtid, 25)
	set(tAnonymousGtid, 25)
	set(tPreviousGtids, 0)
	set(tHeartbeat, 0)
	set(tRowsQuery, 0)
	set(26, 2)
	return h
}

func le16(v uint16) []byte { b := make([]byte, 2); binary.LittleEndian.PutUint16(b, v); return b }
func le32(v uint32) []byte { b := make([]byte, 4); binary.LittleEndian.PutUint32(b, v); return b }
func le64(v uint64) []byte { b := make([]byte, 8); binary.LittleEndian.PutUint64(b, v); return b }
func leN(v uint64, n int) []byte {
	b := make([]byte, n)
	for i := 0; i < n; i++ {
		b[i] = byte(v >> (8 * uint(i)))
	}
	return b
}

// lenEnc is MySQL's length-encoded integer.
func lenEnc(n uint64) []byte {
	switch {
	case n < 251:
		return []byte{byte(n)}
	case n < 1<<16:
		return append([]byte{0xfc}, leN(n, 2)...)
	case n < 1<<24:
		return append([]byte{0xfd}, leN(n, 3)...)
	default:
		return append([]byte{0xfe}, leN(n, 8)...)
	}
}

// mkEvent frames a body: header (19 bytes) + body [+ CRC32]. nextPos is written verbatim.
func mkEvent(ts uint32, typ byte, serverID uint32, nextPos uint32, flags uint16, body []byte, crc bool) []byte {
	l := 19 + len(body)
	if crc {
		l += 4
	}
	ev := make([]byte, 0, l)
	ev = append(ev, le32(ts)...)
	ev = append(ev, typ)
	ev = append(ev, le32(serverID)...)
	ev = append(ev, le32(uint32(l))...)
	ev = append(ev, le32(nextPos)...)
	ev = append(ev, le16(flags)...)
	ev = append(ev, body...)
	if crc {
		ev = append(ev, le32(crc32.ChecksumIEEE(ev))...)
	}
	return ev
}

// fdeBody: version 4, server version (50, NUL padded), create ts, header length 19,
// post-header lengths, checksum algorithm. The 4 checksum bytes that always follow are
// appended by the framing (FDE is always framed with crc=true).
func fdeBody(c WireCfg, createTS uint32, alg byte) []byte {
	b := make([]byte, 0, 128)
	b = append(b, le16(4)...)
	sv := make([]byte, 50)
	copy(sv, c.SrvVer)
	b = append(b, sv...)
	b = append(b, le32(createTS)...)
	b = append(b, 19)
	b = append(b, c.postHeaderLens()...)
	b = append(b, alg)
	return b
}

func rotateBody(pos uint64, file string) []byte {
	return append(le64(pos), []byte(file)...)
}

func queryBody(thread, exec uint32, db string, errCode uint16, statusVars []byte, sql string) []byte {
	b := make([]byte, 0, 32+len(sql))
	b = append(b, le32(thread)...)
	b = append(b, le32(exec)...)
	b = append(b, byte(len(db)))
	b = append(b, le16(errCode)...)
	b = append(b, le16(uint16(len(statusVars)))...)
	b = append(b, statusVars...)
	b = append(b, db...)
	b = append(b, 0)
	b = append(b, sql...)
	return b
}

func gtidBody(flags byte, sid [16]byte, gno int64, v57 bool) []byte {
	b := []byte{flags}
	b = append(b, sid[:]...)
	b = append(b, le64(uint64(gno))...)
	if v57 {
		b = append(b, 2)
		b = append(b, le64(1)...)
		b = append(b, le64(2)...)
	}
	return b
}

func bitmapBytes(bits []bool) []byte {
	b := make([]byte, (len(bits)+7)/8)
	for i, v := range bits {
		if v {
			b[i/8] |= 1 << uint(i%8)
		}
	}
	return b
}

func tableMapBody(c WireCfg, t *Table, optTail []byte) []byte {
	b := leN(t.ID, c.TidW)
	b = append(b, le16(1)...)
	b = append(b, byte(len(t.DB)))
	b = append(b, t.DB...)
	b = append(b, 0)
	b = append(b, byte(len(t.Name)))
	b = append(b, t.Name...)
	b = append(b, 0)
	b = append(b, lenEnc(uint64(len(t.Cols)))...)
	var meta []byte
	nullable := make([]bool, len(t.Cols))
	for i, col := range t.Cols {
		b = append(b, col.Typ)
		meta = append(meta, col.MetaB...)
		nullable[i] = col.Nullable
	}
	b = append(b, lenEnc(uint64(len(meta)))...)
	b = append(b, meta...)
	b = append(b, bitmapBytes(nullable)...)
	b = append(b, optTail...)
	return b
}

// imageBytes encodes one row image: NULL bitmap over the present columns, then non-NULL cells.
func imageBytes(cells []Cell) []byte {
	var nulls []bool
	var data []byte
	for _, c := range cells {
		switch c.St {
		case "absent":
		case "null":
			nulls = append(nulls, true)
		default:
			nulls = append(nulls, false)
			data = append(data, c.Bytes...)
		}
	}
	return append(bitmapBytes(nulls), data...)
}

func presentOf(cells []Cell) []bool {
	p := make([]bool, len(cells))
	for i, c := range cells {
		p[i] = c.St != "absent"
	}
	return p
}

// rowsBody: kind is "write", "update" or "delete".
func rowsBody(c WireCfg, kind string, t *Table, rows []RowPair, extra []byte, presentB, presentA []bool) []byte {
	b := leN(t.ID, c.TidW)
	b = append(b, le16(1)...)
	if c.RowsV2 {
		b = append(b, le16(uint16(2+len(extra)))...)
		b = append(b, extra...)
	}
	b = append(b, lenEnc(uint64(len(t.Cols)))...)
	hasB := kind != "write"
	hasA := kind != "delete"
	pad := func(bm []byte, n int) []byte {
		if c.PadOnes && n%8 != 0 {
			bm[len(bm)-1] |= byte(0xff) << uint(n%8)
		}
		return bm
	}
	if hasB {
		b = append(b, pad(bitmapBytes(presentB), len(presentB))...)
	}
	if hasA {
		b = append(b, pad(bitmapBytes(presentA), len(presentA))...)
	}
	for _, r := range rows {
		if hasB {
			b = append(b, imageBytes(r.B)...)
		}
		if hasA {
			b = append(b, imageBytes(r.A)...)
		}
	}
	return b
}

func rowsType(c WireCfg, kind string) byte {
	if c.RowsV2 {
		switch kind {
		case "write":
			return tWriteRowsV2
		case "update":
			return tUpdateRowsV2
		}
		return tDeleteRowsV2
	}
	switch kind {
	case "write":
		return tWriteRowsV1
	case "update":
		return tUpdateRowsV1
	}
	return tDeleteRowsV1
}

// sidBlock encodes a PREVIOUS_GTIDS body: nSIDs, then per SID: SID, nIntervals, (start, end exclusive).
func sidBlock(sids [][16]byte, ivs [][][2]int64) []byte {
	b := le64(uint64(len(sids)))
	for i, s := range sids {
		b = append(b, s[:]...)
		b = append(b, le64(uint64(len(ivs[i])))...)
		for _, iv := range ivs[i] {
			b = append(b, le64(uint64(iv[0]))...)
			b = append(b, le64(uint64(iv[1]+1))...)
		}
	}
	return b
}
