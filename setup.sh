#!/bin/sh
# Offline setup: verify the tool chain and pre-warm the Go build cache for the harness.
set -e
export GOFLAGS=-mod=mod GOPROXY=off GOSUMDB=off GOTOOLCHAIN=local
java -version >/dev/null 2>&1
test -f /opt/veriftools/tla/tla2tools.jar
go version >/dev/null
command -v tlapm >/dev/null   # TLA+ proof system (C19: MariaGTID_proofs.tla)
python3 - <<'PY'
import sys
sys.path.insert(0, "/verif/lib")
import vf, shutil
d = vf.scratch()
try:
    vf.build_harness(d)
    vf.build_harness(d, race=True)
finally:
    shutil.rmtree(d, ignore_errors=True)
print("setup ok")
PY
