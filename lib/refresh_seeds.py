#!/usr/bin/env python3
"""refresh_seeds.py [seed-name ...]  — re-run lib/seedtest.py for kept seeds and update their meta.json (caught_by, monitors)."""
import json, os, subprocess, sys, glob
VERIF = os.path.dirname(os.path.dirname(os.path.abspath(__file__)))
EXTRA = {"C01-C": ["C02", "C08"]}
names = sys.argv[1:] or [os.path.basename(os.path.dirname(p)) for p in sorted(glob.glob(os.path.join(VERIF, "seeded", "*", "meta.json")))]
for n in names:
    d = os.path.join(VERIF, "seeded", n)
    meta = json.load(open(os.path.join(d, "meta.json")))
    checks = [meta["property"]] + EXTRA.get(n, [])
    p = subprocess.run([sys.executable, os.path.join(VERIF, "lib", "seedtest.py"), d] + checks, stdout=subprocess.PIPE, stderr=subprocess.STDOUT, text=True)
    try:
        res = json.loads(p.stdout[p.stdout.index("{"):])
    except Exception:
        print(n, "seedtest failed", p.stdout[-500:])
        continue
    meta["confirmed"] = bool(res.get("applies") and res.get("suite_passes_with") and res.get("demo_fails_with") and res.get("demo_passes_without"))
    meta["confirmation"] = {k: res.get(k) for k in ("applies", "suite_passes_with", "demo_fails_with", "demo_passes_without")}
    meta["caught_by"] = [c for c, r in res["checks"].items() if r["violations"] > 0]
    meta["monitors"] = {c: r["monitors"] for c, r in res["checks"].items()}
    meta["check_results"] = {c: {"rc": r["rc"], "violations": r["violations"]} for c, r in res["checks"].items()}
    json.dump(meta, open(os.path.join(d, "meta.json"), "w"), indent=1)
    print(n, "confirmed" if meta["confirmed"] else "NOT CONFIRMED", "caught by", meta["caught_by"] or "NOTHING")
