#!/usr/bin/env python3
"""benigntest.py [patch ...] — apply each behaviour-preserving patch of /verif/benign in a scratch worktree and run the quick
checks against it: every check must exit 0 (no false alarm). Prints one line per (patch, check)."""
import os, subprocess, sys, tempfile, shutil, glob
VERIF = os.path.dirname(os.path.dirname(os.path.abspath(__file__)))
CHECKS = os.environ.get("BENIGN_CHECKS", "C01 C02 C03 C04 C05 C06 C07 C08 C13 C15 C16 C17 C19 C20").split()
patches = sys.argv[1:] or sorted(glob.glob(os.path.join(VERIF, "benign", "*.diff")))
bad = 0
for p in patches:
    wt = tempfile.mkdtemp(prefix="benwt-")
    os.rmdir(wt)
    subprocess.run(["git", "-C", "/repo", "worktree", "add", "-f", "--detach", wt, "HEAD"], stdout=subprocess.DEVNULL, stderr=subprocess.DEVNULL)
    try:
        r = subprocess.run(["git", "-C", wt, "apply", p], stdout=subprocess.PIPE, stderr=subprocess.STDOUT, text=True)
        if r.returncode != 0:
            print(os.path.basename(p), "does not apply:", r.stdout[-200:])
            bad += 1
            continue
        for c in CHECKS:
            env = dict(os.environ, VERIF_REPO=wt, VERIF_EVIDENCE_DIR=wt + "-ev")
            r = subprocess.run([os.path.join(VERIF, "check"), c], cwd=VERIF, env=env, stdout=subprocess.PIPE, stderr=subprocess.STDOUT, text=True, errors="replace")
            lines = [l for l in r.stdout.splitlines() if l.startswith(("VIOLATION", "NO-VERDICT", "MODEL-DRIFT", "  monitor"))]
            print("%-40s %s rc=%d %s" % (os.path.basename(p), c, r.returncode, " | ".join(x[:900] for x in lines[:3])))
            sys.stdout.flush()
            bad += 1 if r.returncode != 0 else 0
    finally:
        subprocess.run(["git", "-C", "/repo", "worktree", "remove", "--force", wt], stdout=subprocess.DEVNULL, stderr=subprocess.DEVNULL)
        shutil.rmtree(wt, ignore_errors=True)
        shutil.rmtree(wt + "-ev", ignore_errors=True)
print("benign: %d alarms" % bad)
sys.exit(1 if bad else 0)
