#!/usr/bin/env python3
"""seedtest.py <seed-dir> [<check-id> ...]

Confirms a seeded change (patch.diff + demo_test.go + optional meta.json) in a scratch worktree of /repo and runs
the given checks (default: the property named in meta.json) against the changed tree.
  1. patch applies to /repo's HEAD, `go build ./...` works, the existing suite passes;
  2. the demonstration fails with the change and passes without it;
  3. ./check <id> (quick tier) against the changed tree: expects VIOLATION.
Nothing is written to /repo; the worktree lives under $TMPDIR and is removed afterwards."""
import json, os, re, shutil, subprocess, sys, tempfile

VERIF = os.path.dirname(os.path.dirname(os.path.abspath(__file__)))
ENV = dict(os.environ, GOFLAGS="-mod=mod", GOPROXY="off", GOSUMDB="off", GOTOOLCHAIN="local")


def sh(cmd, cwd=None, env=None, timeout=1800):
    p = subprocess.run(cmd, cwd=cwd, env=env or ENV, shell=isinstance(cmd, str), stdout=subprocess.PIPE, stderr=subprocess.STDOUT, text=True, errors="replace", timeout=timeout)
    return p.returncode, p.stdout


def main():
    seed = os.path.abspath(sys.argv[1])
    checks = sys.argv[2:]
    meta = {}
    if os.path.exists(os.path.join(seed, "meta.json")):
        meta = json.load(open(os.path.join(seed, "meta.json")))
    if not checks:
        checks = [meta["property"]]
    tier = os.environ.get("SEED_TIER", "quick")
    wt = tempfile.mkdtemp(prefix="seedwt-")
    os.rmdir(wt)
    res = {"seed": seed, "checks": {}}
    try:
        rc, out = sh(["git", "-C", "/repo", "worktree", "add", "-f", "--detach", wt, "HEAD"])
        assert rc == 0, out
        demo = os.path.join(seed, "demo_test.go")
        place = "."
        if os.path.exists(demo):
            first = open(demo).readline()
            m = re.search(r"place in:\s*(\S+)", first)
            if m:
                place = m.group(1).strip("/") or "."
        demo_dst = os.path.join(wt, place, "zz_seed_demo_test.go")
        # unchanged tree: the demo passes
        if os.path.exists(demo):
            shutil.copy(demo, demo_dst)
            rc, out = sh("go test -vet=off -count=1 ./%s/..." % place if place != "." else "go test -vet=off -count=1 .", cwd=wt)
            res["demo_passes_without"] = rc == 0
            if rc != 0:
                res["demo_without_out"] = out[-800:]
            os.remove(demo_dst)
        rc, out = sh(["git", "-C", wt, "apply", os.path.join(seed, "patch.diff")])
        if rc != 0:
            # the tree moved on since the change was written (the add-only hooks commit): rebase the patch (lib/rebase_seed.py
            # re-inserts the hook lines around the change) and apply the rebased patch
            sh([sys.executable, os.path.join(VERIF, "lib", "rebase_seed.py"), seed])
            rc, out = sh(["git", "-C", wt, "apply", os.path.join(seed, "patch.diff")])
            res["rebased"] = rc == 0
        res["applies"] = rc == 0
        if rc != 0:
            res["apply_out"] = out[-500:]
            print(json.dumps(res, indent=1))
            return 1
        rc, out = sh("go build ./... && go test -vet=off -count=1 ./...", cwd=wt)
        res["suite_passes_with"] = rc == 0
        if rc != 0:
            res["suite_out"] = out[-800:]
        if os.path.exists(demo):
            shutil.copy(demo, demo_dst)
            rc, out = sh("go test -vet=off -count=1 ./%s/..." % place if place != "." else "go test -vet=off -count=1 .", cwd=wt)
            res["demo_fails_with"] = rc != 0
            os.remove(demo_dst)
        for c in checks:
            env = dict(os.environ, VERIF_REPO=wt, VERIF_SEED=os.environ.get("VERIF_SEED", "1"), VERIF_EVIDENCE_DIR=wt + "-evidence")
            rc, out = sh([os.path.join(VERIF, "check"), c, "--tier", tier], cwd=VERIF, env=env, timeout=7200)
            viol = [l for l in out.splitlines() if l.startswith("VIOLATION")]
            mons = sorted(set(re.findall(r"monitor=(\S+)", out)))
            res["checks"][c] = {"rc": rc, "violations": len(viol), "monitors": mons, "tail": out.splitlines()[-1:] }
    finally:
        sh(["git", "-C", "/repo", "worktree", "remove", "--force", wt])
        shutil.rmtree(wt, ignore_errors=True)
        shutil.rmtree(wt + "-evidence", ignore_errors=True)
    print(json.dumps(res, indent=1))
    return 0


if __name__ == "__main__":
    sys.exit(main())
