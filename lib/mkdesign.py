#!/usr/bin/env python3
"""Fills the seeded-change table of DESIGN.md (marker @@SEEDTABLE@@ or the previously generated table) from seeded/*/meta.json."""
import json, os, re, glob
VERIF = os.path.dirname(os.path.dirname(os.path.abspath(__file__)))
rows = []
for mp in sorted(glob.glob(os.path.join(VERIF, "seeded", "*", "meta.json"))):
    m = json.load(open(mp))
    d = os.path.basename(os.path.dirname(mp))
    notes = " ".join(m.get("needs_to_manifest", []))
    first = ""
    for ln in m.get("needs_to_manifest", []):
        if ln.strip().startswith("#"):
            first = ln.strip("# ").strip()
            break
    if not first and m.get("needs_to_manifest"):
        first = m["needs_to_manifest"][0][:140]
    mons = sorted({x for v in m.get("monitors", {}).values() for x in v})
    rows.append("| %s | %s | %s | %s |" % (d, first.replace("|", "/")[:150], ", ".join(m.get("caught_by", [])) or "**not caught**", ", ".join(mons[:4])))
table = "<!-- SEEDTABLE BEGIN -->\n| seed | change | caught by (quick tier) | monitors |\n|---|---|---|---|\n" + "\n".join(rows) + "\n<!-- SEEDTABLE END -->"
p = os.path.join(VERIF, "DESIGN.md")
s = open(p).read()
if "@@SEEDTABLE@@" in s:
    s = s.replace("@@SEEDTABLE@@", table)
else:
    s = re.sub(r"<!-- SEEDTABLE BEGIN -->.*?<!-- SEEDTABLE END -->", lambda _: table, s, flags=re.S)
open(p, "w").write(s)
print(len(rows), "seeds in table")
