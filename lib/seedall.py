#!/usr/bin/env python3
"""seedall.py [-j N] [ids...] — re-confirm every kept seeded change (seeded/*/meta.json) with lib/seedtest.py, N at a time,
and require each to be caught by the check(s) recorded in its meta.json. Prints one line per seed and a summary; exit 1 if
any seed is no longer confirmed or no longer caught."""
import concurrent.futures, json, os, subprocess, sys
VERIF = os.path.dirname(os.path.dirname(os.path.abspath(__file__)))


def one(d):
    sd = os.path.join(VERIF, "seeded", d)
    meta = json.load(open(os.path.join(sd, "meta.json")))
    checks = meta.get("caught_by") or [meta["property"]]
    p = subprocess.run([sys.executable, os.path.join(VERIF, "lib", "seedtest.py"), sd] + checks, stdout=subprocess.PIPE,
                       stderr=subprocess.STDOUT, text=True)
    try:
        res = json.loads(p.stdout[p.stdout.index("{"):])
        confirmed = res.get("applies") and res.get("suite_passes_with") and res.get("demo_fails_with") and res.get("demo_passes_without")
        caught = [c for c, r in res["checks"].items() if r["violations"] > 0]
        mons = {c: r["monitors"][:3] for c, r in res["checks"].items()}
    except Exception:
        return d, False, [], {"error": p.stdout[-300:]}
    return d, bool(confirmed), caught, mons


def main():
    args = sys.argv[1:]
    j = 4
    if "-j" in args:
        i = args.index("-j")
        j = int(args[i + 1])
        del args[i:i + 2]
    root = os.path.join(VERIF, "seeded")
    ds = sorted(d for d in os.listdir(root) if os.path.exists(os.path.join(root, d, "meta.json")))
    if args:
        ds = [d for d in ds if d in args or d.split("-")[0] in args]
    bad = 0
    with concurrent.futures.ThreadPoolExecutor(max_workers=j) as ex:
        for d, confirmed, caught, mons in ex.map(one, ds):
            ok = confirmed and caught
            bad += 0 if ok else 1
            print("%-4s %s confirmed=%s caught_by=%s %s" % ("ok" if ok else "MISS", d, confirmed, caught, mons), flush=True)
    print("seedall: %d seeds, %d problems" % (len(ds), bad))
    return 1 if bad else 0


if __name__ == "__main__":
    sys.exit(main())
