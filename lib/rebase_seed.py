#!/usr/bin/env python3
"""rebase_seed.py <seed-dir>...  — re-create a seeded patch against /repo HEAD after the add-only hooks commit.

The patch was written against PRE (the commit before the hooks). We apply it there, then re-insert every hook line of
the hooks commit whose anchor lines (the line before / after it) still exist in the changed file, and diff against
HEAD. Hook lines whose anchors the change rewrote are dropped (hooks are optional instrumentation)."""
import os, subprocess, sys, tempfile, shutil, re

PRE, HOOKS = "661f63c", "b8ffa54"


def sh(*a, cwd=None, check=True):
    p = subprocess.run(a, cwd=cwd, stdout=subprocess.PIPE, stderr=subprocess.STDOUT, text=True)
    if check and p.returncode != 0:
        raise RuntimeError(" ".join(a) + "\n" + p.stdout)
    return p.stdout


def hook_insertions(path):
    """[(prev, added_lines, next)] from the hooks commit for one file."""
    pre = sh("git", "-C", "/repo", "show", "%s:%s" % (PRE, path)).splitlines()
    post = sh("git", "-C", "/repo", "show", "%s:%s" % (HOOKS, path)).splitlines()
    out, i, j = [], 0, 0
    while j < len(post):
        if i < len(pre) and pre[i] == post[j]:
            i += 1
            j += 1
            continue
        added = []
        while j < len(post) and (i >= len(pre) or pre[i] != post[j]):
            added.append(post[j])
            j += 1
        out.append((post[j - len(added) - 1] if j - len(added) - 1 >= 0 else None, added, post[j] if j < len(post) else None))
    return out


def main():
    for seed in sys.argv[1:]:
        seed = os.path.abspath(seed)
        wt = tempfile.mkdtemp(prefix="rb-")
        os.rmdir(wt)
        try:
            sh("git", "-C", "/repo", "worktree", "add", "-f", "--detach", wt, PRE)
            sh("git", "-C", wt, "apply", os.path.join(seed, "patch.orig.diff" if os.path.exists(os.path.join(seed, "patch.orig.diff")) else "patch.diff"))
            changed = [l.strip() for l in sh("git", "-C", wt, "diff", "--name-only").splitlines() if l.strip()]
            # every file of the hooks commit gets its hook lines re-inserted
            hooked = [l.strip() for l in sh("git", "-C", "/repo", "diff", "--name-only", PRE, HOOKS).splitlines() if l.strip()]
            dropped = 0
            for path in hooked:
                if path in ("verif_on.go", "verif_off.go"):
                    shutil.copy(os.path.join("/repo", path), os.path.join(wt, path))
                    continue
                fp = os.path.join(wt, path)
                lines = open(fp).read().splitlines()
                for prev, added, nxt in hook_insertions(path):
                    cands = [k for k in range(len(lines)) if prev is not None and lines[k].strip() == prev.strip()
                             and (nxt is None or (k + 1 < len(lines) and lines[k + 1].strip() == nxt.strip()))]
                    if len(cands) != 1:
                        cands = [k for k in range(len(lines)) if prev is not None and lines[k].strip() == prev.strip()]
                    if len(cands) == 1:
                        k = cands[0]
                        lines[k + 1:k + 1] = added
                    else:
                        dropped += len(added)
                open(fp, "w").write("\n".join(lines) + "\n")
            sh("git", "-C", wt, "add", "-A")
            head = sh("git", "-C", "/repo", "rev-parse", "HEAD").strip()
            diff = sh("git", "-C", wt, "diff", "--cached", head)
        except Exception as ex:
            print(seed, "FAILED", ex)
            sh("git", "-C", "/repo", "worktree", "remove", "--force", wt, check=False)
            continue
        # build check
        env = dict(os.environ, GOFLAGS="-mod=mod", GOPROXY="off", GOSUMDB="off", GOTOOLCHAIN="local")
        b = subprocess.run("go build ./... && go build -tags verif ./...", shell=True, cwd=wt, env=env, stdout=subprocess.PIPE, stderr=subprocess.STDOUT, text=True)
        ok = b.returncode == 0
        if ok:
            if not os.path.exists(os.path.join(seed, "patch.orig.diff")):
                shutil.copy(os.path.join(seed, "patch.diff"), os.path.join(seed, "patch.orig.diff"))
            open(os.path.join(seed, "patch.diff"), "w").write(diff)
        print(seed, "rebased" if ok else "BUILD FAILED\n" + b.stdout[-600:], "(hook lines dropped: %d)" % dropped)
        sh("git", "-C", "/repo", "worktree", "remove", "--force", wt, check=False)
        shutil.rmtree(wt, ignore_errors=True)


if __name__ == "__main__":
    main()
