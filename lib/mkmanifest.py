#!/usr/bin/env python3
"""Regenerates /verif/MANIFEST.json from the check registry (lib/props.py) and the texts below."""
import json, os, sys

sys.path.insert(0, os.path.dirname(os.path.abspath(__file__)))
import props

VERIF = os.path.dirname(os.path.dirname(os.path.abspath(__file__)))

TEXT = {
    "C01": ("TLC model-checks the parser model against the declarative binlog semantics (Refines, exhaustively over all unit "
            "sequences in the bound); generated and random histories are served by a simulated master to the real Stream() under "
            "every wire configuration and the recorded deliveries are validated by TLC against Committed(log,start) with cell texts "
            "computed by the TLA+ format transcription.", "§6 C01"),
    "C02": ("TLC checks OnlyAtCommit / Refines on the model for every unit sequence over the 13-unit alphabet within the bound; the "
            "same sequences (TLC-generated, exhaustive) plus all keyword casings and random longer ones run through the real Stream() "
            "in lock-step and TLC validates grouping and the causal 'not before its commit event was sent' monitor.", "§6 C02"),
    "C03": ("TLC checks LabelsChain / ResumeExact on the model; on the real code every delivered transaction's end label is used for "
            "one extra real stream whose dump request and deliveries TLC compares with the remainder of the full run, including files "
            "whose offsets sit at 2^31 and just below 2^32.", "§6 C03"),
}

TEXT.update({
    "C04": ("TLC model-checks MC_Session (one Streamer over several attempts, every fault kind of the quantifier at every point, and attempts that end before their dump starts): ExactlyOnce, "
            "ResumeIsBoundaryAfterAccepted; EVERY session of that model within the bound is exported by TLC (Gen_Session) and replayed on ONE real "
            "Streamer object against the simulated master, plus fault plans on random histories; TLC validates that the accepted transactions over "
            "all attempts are exactly the committed sequence and that each following dump request is at the boundary after the last accepted "
            "transaction; the hook-level trace of every attempt is replayed packet by packet against the parser model (Streamer!Step) and against "
            "MC_Conn's actions (Trace_Conn).", "§6 C04"),
    "C05": ("TLC checks the goroutine/channel model MC_Conn under weak fairness (StreamTerminates, NothingLeftBehind, ErrorNeverBlocks, "
            "HandlerDiscipline, ConnectionClosed); every stop cause x stop point x reader state x handler state is replayed on the real code "
            "under the race detector, and behaviours of MC_Conn drawn by TLC (Gen_Conn) are replayed with the library's hook points as scheduler "
            "gates so that the real goroutines follow TLC's interleaving - including behaviours over two Stream calls in which the first call's reader is held back while the second call runs (Cover_Conn.cross.cfg); in the thorough tier TLAPS proves HandlerDiscipline and ConnectionClosed for any number of attempts and packets (MC_Conn_proofs); TLC validates bounded-time return, socket closed at the master, no library "
            "goroutine left (before and after Error() is called), handler discipline and that every Error() call returns; hook-level traces are "
            "validated against MC_Conn's own actions (Trace_Conn).", "§6 C05"),
    "C06": ("TLC checks ReasonReported on MC_Conn (all orderings of errChan publication, channel closes and the parser's select); the stop "
            "schedules and the TLC-generated schedules (Gen_Conn, hook points as scheduler gates) are replayed on the real code and TLC validates "
            "the return values of Stream and Error() against the stop cause.", "§6 C06"),
    "C07": ("TLC checks HandshakeExact on MC_Session; the simulated master decodes COM_QUERY / COM_BINLOG_DUMP of every attempt and TLC "
            "validates order (the announcement before the dump request, on the same connection), count, flags, server id and position bytes (server ids >= 2^31, 255-byte/UTF-8 names, offsets to 2^32-1).", "§6 C07"),
    "C08": ("TLC checks Stable on the memory-region model MC_Buffers; on the real code every delivered transaction is deep-projected at "
            "delivery, overwritten by the handler with a per-transaction pattern, re-read after all stream activity, and TLC validates "
            "that only the transaction's own scribbles are visible and that later deliveries still match the oracle.", "§6 C08"),
})

TEXT.update({
    "C09": ("The rows-event format (presence bitmaps, NULL bitmaps, per-type cell lengths) is transcribed in TLA+ (EventFormat, CellCodec: RowsBodyP, "
            "CellLen); TLC evaluates it on every recorded case - the real Rows() and the real column-by-column CellBytes walk over events written by "
            "an independent writer for every column shape, bitmap and row count - and requires row count, byte-exact images and exact consumption "
            "(length rule = value decoder); end to end the same tables are streamed through Stream() with partial images and several rows events per "
            "table map.", "§6 C09"),
    "C10": ("CellCodec.tla gives the decimal text of every integer width / signedness, the documented forms of YEAR, BIT, ENUM, SET and the round-trip "
            "rule for FLOAT / DOUBLE; TLC evaluates it against the real CellBytes on exhaustive 8/16/24-bit domains (32-bit in the thorough tier) and "
            "boundary / random wider values, and end to end through Stream() (signedness from the table mapper, also when the mapper's answer changes "
            "while the stream runs and when MySQL 8.0's SIGNEDNESS metadata is present).", "§6 C10"),
    "C11": ("CellCodec.tla transcribes decimal2bin's inverse for every valid (precision, scale); TLC compares the canonical text it derives from the "
            "abstract digits with the real decoder's output for six digit classes of all 1 520 valid (p, s), both signs, the same cell decoded "
            "twice, and end to end through Stream().", "§6 C11"),
    "C12": ("CellCodec.tla transcribes the temporal encodings (DATE, TIME, DATETIME, TIMESTAMP and their fractional variants, zero dates, negative "
            "times); TLC compares canonical texts with the real decoder over exhaustive 3-byte domains (thorough) / chunks (quick), fraction lengths "
            "0..6, time zones with and without DST (the offset in force is logged from Go's tz database), and end to end.", "§6 C12"),
    "C13": ("CellCodec.tla: string and blob cells are their bytes after a 1..4-byte length prefix chosen by the declared maximum; TLC checks value, "
            "consumed length and error behaviour of the real decoder for every prefix width, declared maxima 0..65535 / CHAR 0..1023, actual lengths "
            "at the boundaries (0, 1, 252..256, the declared maximum, values of 64 KiB and more behind 3- and 4-byte prefixes), NULL / empty / absent in every column position, and end to end.", "§6 C13"),
    "C14": ("JsonBinary.tla is an independent encoder of MySQL's binary JSON and JsonSem.tla the denotation of rendered text; documents drawn from a "
            "recursive generator are serialised by the harness writer (cross-checked against JsonBinary), decoded by the real code, the printed text is "
            "parsed back and TLC requires the same document (keys, order, nesting, scalars incl. opaque temporals / decimals), in small and large "
            "formats, also right after documents that cannot be rendered.", "§6 C14"),
    "C15": ("EventFormat.tla transcribes TABLE_MAP (names, types, metadata, nullability, optional tail); TLC compares the decoded table map with the "
            "encoded one for all metadata combinations, and - on streams - that rows are attributed to the table announced for their id, decoded "
            "with the most recent table map and named / signed by the mapper by ordinal, and that a mapper table of another column count is rejected.",
            "§6 C15"),
    "C16": ("EventFormat.tla transcribes the common header and the bodies of FORMAT_DESCRIPTION, ROTATE, QUERY (status variables), XID, INTVAR, RAND; "
            "TLC compares every decoded field with what the independent writer encoded, with and without CRC32; the stream half runs two streams on "
            "one Streamer whose masters announce different formats and TLC requires the second stream's labels and contents to be those of its own "
            "history.", "§6 C16"),
    "C17": ("TLC checks NoPartialOnInvalid on MC_Streamer / MC_Session; the validity predicate is transcribed (EventFormat!HdrOK) and compared with the "
            "real IsValid on structured and random byte strings, every header accessor is called on accepted buffers; malformed packets of every type "
            "code are injected at every index of real streams (and wherever the session model injects one) and TLC requires an error, no partial "
            "delivery, and the resume position at the last accepted boundary.", "§6 C17"),
    "C18": ("GTIDSet.tla defines sets as canonical interval lists with AddGTID = union; TLC model-checks the algebra (AddIsUnion, RepIsCanon, "
            "ReceiverUnchanged) over every set in a window, exports every such set (Gen_GTIDSet) and compares the real AddGTID / Contains / Equal / "
            "String with it, plus wide random histories with forks (every earlier set is re-read after every call).", "§6 C18"),
    "C19": ("GTIDText.tla / MariaGTID.tla transcribe the textual, flavor-tagged, SID-block and event encodings; TLC checks round trips of the real "
            "parsers and printers for boundary server ids and sequence numbers (2^63-1, 2^64-1), MySQL 5.6 sets of 0..8 members, MariaDB sets in any "
            "domain order; TLAPS proves AddGTID keeps one position per domain for all sets (MariaGTID_proofs).", "§6 C19"),
    "C20": ("JsonSem.tla gives the JSON denotation of a transaction (escaping, invalid UTF-8, NULL vs empty, absent flag, type and statement names); TLC "
            "compares it with what the library's own marshalers produce (called directly, read after the next serialisation, parsed back with "
            "encoding/json) for end-to-end and synthetic transactions with arbitrary bytes, and on streams that every delivered cell renders as "
            "absent / null / string as the binlog row says and that no delivered event's kind is rendered as unknown.", "§6 C20"),
})

TECH = {
    "C01": "TLC refinement check (MC_Streamer: Refines) + TLC validation of recorded Stream() deliveries against Committed(log, start)",
    "C02": "TLC model checking (OnlyAtCommit, Refines) + TLC-generated unit sequences (Gen_Units) replayed on Stream(), traces validated by TLC",
    "C03": "TLC model checking (LabelsChain, ResumeExact) + one real resumed stream per delivered label, validated by TLC",
    "C04": "TLC model checking of MC_Session + every session of the model (Gen_Session) replayed on one real Streamer; traces validated by TLC monitors",
    "C05": "TLC liveness/safety checking of MC_Conn + TLC-generated schedules replayed with hook points as scheduler gates under the race detector; TLAPS proof of two invariants (thorough)",
    "C06": "TLC model checking of MC_Conn (ReasonReported) + replayed stop schedules and TLC-generated schedules; Stream / Error() results validated by TLC",
    "C07": "TLC model checking (HandshakeExact) + commands recorded by the simulated master validated by TLC",
    "C08": "TLC model checking of MC_Buffers (Stable) + deliveries overwritten by the handler and re-read, validated by TLC",
    "C09": "TLA+ transcription of the rows-event format evaluated by TLC on recorded decoder cases and streams (trace validation)",
    "C10": "TLA+ transcription of the integer / float / YEAR / BIT / ENUM / SET decodings evaluated by TLC on exhaustive and boundary cases (trace validation)",
    "C11": "TLA+ transcription of the DECIMAL encoding evaluated by TLC on recorded decoder cases (trace validation)",
    "C12": "TLA+ transcription of the temporal encodings evaluated by TLC on exhaustive small domains and boundary cases (trace validation)",
    "C13": "TLA+ transcription of the string / blob encodings evaluated by TLC on recorded decoder cases (trace validation)",
    "C14": "independent TLA+ encoder (JsonBinary) and denotation (JsonSem) evaluated by TLC on recorded decodes of generated documents (trace validation)",
    "C15": "TLA+ transcription of TABLE_MAP + stream monitors on attribution, evaluated by TLC (trace validation)",
    "C16": "TLA+ transcription of header / FDE / ROTATE / QUERY / XID / INTVAR / RAND evaluated by TLC on recorded decodes; two-stream scenarios validated by TLC",
    "C17": "TLC model checking (NoPartialOnInvalid) + transcribed validity predicate vs real IsValid + injected malformed packets, validated by TLC",
    "C18": "TLC model checking of the GTID-set algebra + every set of the window (Gen_GTIDSet) and random histories compared with the real code by TLC",
    "C19": "TLA+ transcription of the GTID encodings evaluated by TLC on recorded round trips; TLAPS proof for MariaDB AddGTID",
    "C20": "TLA+ JSON denotation (JsonSem) evaluated by TLC on the library's marshaler output (trace validation)",
}

NOTE = ("Assumes: TLC and the CommunityModules Json module are correct; the simulated master implements the protocol subset of "
        "DESIGN.md A.1; the format transcription in spec/*.tla (checked against server-captured vectors by spec/Test_*.tla) is right; "
        "bounded waits of 8 s stand for 'bounded time'.")


def main():
    checks = []
    for pid in sorted(props.REGISTRY):
        text, ref = TEXT.get(pid, ("model-based check", ""))
        checks.append({
            "property_id": pid,
            "quick_cmd": "./check %s --tier quick" % pid,
            "thorough_cmd": "./check %s --tier thorough" % pid,
            "evidence_file": "/verif/evidence/%s.json" % pid,
            "replay_cmd_template": "./check %s --replay {path}" % pid,
            "engine": "tlc-trace",
            "level_claimed": {"category": "model_checking", "text": text, "design_ref": ref},
            "level_note": NOTE,
            "technique": TECH.get(pid) or props.REGISTRY[pid].get("technique", "explicit TLA+ specification: TLC model checking + TLC trace validation of the real code"),
        })
    allp = [json.loads(l)["id"] for l in open(os.path.join(VERIF, "properties.jsonl"))]
    na = [{"property_id": p, "reason": NA.get(p, "check not built yet in this round (claimed by DESIGN.md; work in progress)")}
          for p in allp if p not in props.REGISTRY]
    man = {
        "version": 1,
        "setup_cmd": "./setup.sh",
        "hooks": {"guard": "verif", "enable": "go test -c -tags verif -overlay <overlay.json> . (the harness is injected by overlay and installs its hook function with gobinlog.VerifSetHook; see lib/vf.py)",
                  "baseline_off_cmd": "cd /repo && GOFLAGS=-mod=mod GOPROXY=off GOSUMDB=off GOTOOLCHAIN=local go test -vet=off -count=1 ./...",
                  "source_commits": HOOK_COMMITS, "add_only": True},
        "engines": [{"name": "tlc-trace", "path": "/verif/check", "serves_properties": sorted(props.REGISTRY),
                     "kind_free_text": "TLA+ specifications (spec/) model-checked by TLC; scenarios generated by TLC; Go harness (harness/) "
                                       "drives the real code; recorded ndjson traces validated by TLC monitors"}],
        "checks": checks,
        "not_applicable": na,
        "notes": "See DESIGN.md. known_findings.json lists recorded and fixed defects.",
    }
    with open(os.path.join(VERIF, "MANIFEST.json"), "w") as fh:
        json.dump(man, fh, indent=1)
    print("MANIFEST.json: %d checks, %d not_applicable" % (len(checks), len(na)))


NA = {}
HOOK_COMMITS = ["b8ffa54"]

if __name__ == "__main__":
    main()
