#!/usr/bin/env python3
"""Regenerates /verif/MANIFEST.json from the check registry (lib/props.py) and the texts below."""
import json, os, sys

sys.path.insert(0, os.path.dirname(os.path.abspath(__file__)))
import props

VERIF = os.path.dirname(os.path.dirname(os.path.abspath(__file__)))

TEXT = {
    "C01": ("TLC model-checks the parser model against the declarative binlog semantics (Refines, exhaustively over all unit "
            "sequences in the bound); generated and random histories are served by a simulated master to the real Stream() under "
            "every wire configuration and the recorded deliveries are validated by TLC against Committed(log,start) with cell texts "
            "computed by the TLA+ format transcription.", "§6 C01"),
    "C02": ("TLC checks OnlyAtCommit / Refines on the model for every unit sequence over the 13-unit alphabet within the bound; the "
            "same sequences (TLC-generated, exhaustive) plus all keyword casings and random longer ones run through the real Stream() "
            "in lock-step and TLC validates grouping and the causal 'not before its commit event was sent' monitor.", "§6 C02"),
    "C03": ("TLC checks LabelsChain / ResumeExact on the model; on the real code every delivered transaction's end label is used for "
            "one extra real stream whose dump request and deliveries TLC compares with the remainder of the full run, including files "
            "whose offsets sit at 2^31 and just below 2^32.", "§6 C03"),
}

TEXT.update({
    "C04": ("TLC model-checks MC_Session (one Streamer over several attempts, every fault kind of the quantifier at every point): ExactlyOnce, "
            "ResumeIsBoundaryAfterAccepted; EVERY session of that model within the bound is exported by TLC (Gen_Session) and replayed on ONE real "
            "Streamer object against the simulated master, plus fault plans on random histories; TLC validates that the accepted transactions over "
            "all attempts are exactly the committed sequence and that each following dump request is at the boundary after the last accepted "
            "transaction; the hook-level trace of every attempt is replayed packet by packet against the parser model (Streamer!Step) and against "
            "MC_Conn's actions (Trace_Conn).", "§6 C04"),
    "C05": ("TLC checks the goroutine/channel model MC_Conn under weak fairness (StreamTerminates, NothingLeftBehind, ErrorNeverBlocks, "
            "HandlerDiscipline, ConnectionClosed); every stop cause x stop point x reader state x handler state is replayed on the real code "
            "under the race detector, and behaviours of MC_Conn drawn by TLC (Gen_Conn) are replayed with the library's hook points as scheduler "
            "gates so that the real goroutines follow TLC's interleaving; TLC validates bounded-time return, socket closed at the master, no library "
            "goroutine left (before and after Error() is called), handler discipline and that every Error() call returns; hook-level traces are "
            "validated against MC_Conn's own actions (Trace_Conn).", "§6 C05"),
    "C06": ("TLC checks ReasonReported on MC_Conn (all orderings of errChan publication, channel closes and the parser's select); the stop "
            "schedules and the TLC-generated schedules (Gen_Conn, hook points as scheduler gates) are replayed on the real code and TLC validates "
            "the return values of Stream and Error() against the stop cause.", "§6 C06"),
    "C07": ("TLC checks HandshakeExact on MC_Session; the simulated master decodes COM_QUERY / COM_BINLOG_DUMP of every attempt and TLC "
            "validates order, count, flags, server id and position bytes (server ids >= 2^31, 255-byte/UTF-8 names, offsets to 2^32-1).", "§6 C07"),
    "C08": ("TLC checks Stable on the memory-region model MC_Buffers; on the real code every delivered transaction is deep-projected at "
            "delivery, overwritten by the handler with a per-transaction pattern, re-read after all stream activity, and TLC validates "
            "that only the transaction's own scribbles are visible and that later deliveries still match the oracle.", "§6 C08"),
})

NOTE = ("Assumes: TLC and the CommunityModules Json module are correct; the simulated master implements the protocol subset of "
        "DESIGN.md A.1; the format transcription in spec/*.tla (checked against server-captured vectors by spec/Test_*.tla) is right; "
        "bounded waits of 8 s stand for 'bounded time'.")


def main():
    checks = []
    for pid in sorted(props.REGISTRY):
        text, ref = TEXT.get(pid, ("model-based check", ""))
        checks.append({
            "property_id": pid,
            "quick_cmd": "./check %s --tier quick" % pid,
            "thorough_cmd": "./check %s --tier thorough" % pid,
            "evidence_file": "/verif/evidence/%s.json" % pid,
            "replay_cmd_template": "./check %s --replay {path}" % pid,
            "engine": "tlc-trace",
            "level_claimed": {"category": "model_checking", "text": text, "design_ref": ref},
            "level_note": NOTE,
            "technique": props.REGISTRY[pid].get("technique", "explicit TLA+ specification: TLC model checking + TLC trace validation of the real code"),
        })
    allp = [json.loads(l)["id"] for l in open(os.path.join(VERIF, "properties.jsonl"))]
    na = [{"property_id": p, "reason": NA.get(p, "check not built yet in this round (claimed by DESIGN.md; work in progress)")}
          for p in allp if p not in props.REGISTRY]
    man = {
        "version": 1,
        "setup_cmd": "./setup.sh",
        "hooks": {"guard": "verif", "enable": "go test -c -tags verif -overlay <overlay.json> . (the harness is injected by overlay and installs its hook function with gobinlog.VerifSetHook; see lib/vf.py)",
                  "baseline_off_cmd": "cd /repo && GOFLAGS=-mod=mod GOPROXY=off GOSUMDB=off GOTOOLCHAIN=local go test -vet=off -count=1 ./...",
                  "source_commits": HOOK_COMMITS, "add_only": True},
        "engines": [{"name": "tlc-trace", "path": "/verif/check", "serves_properties": sorted(props.REGISTRY),
                     "kind_free_text": "TLA+ specifications (spec/) model-checked by TLC; scenarios generated by TLC; Go harness (harness/) "
                                       "drives the real code; recorded ndjson traces validated by TLC monitors"}],
        "checks": checks,
        "not_applicable": na,
        "notes": "See DESIGN.md. known_findings.json lists recorded and fixed defects.",
    }
    with open(os.path.join(VERIF, "MANIFEST.json"), "w") as fh:
        json.dump(man, fh, indent=1)
    print("MANIFEST.json: %d checks, %d not_applicable" % (len(checks), len(na)))


NA = {}
HOOK_COMMITS = ["b8ffa54"]

if __name__ == "__main__":
    main()
