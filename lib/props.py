"""Per-property orchestration for /verif/check."""
import subprocess, concurrent.futures, hashlib, json, os, re, shutil, sys, time

import vf

VERIF = vf.VERIF


# ----------------------------------------------------------------------------------------------
# helpers on traces
# ----------------------------------------------------------------------------------------------
def read_trace(path):
    out = []
    with open(path) as fh:
        for ln in fh:
            ln = ln.strip()
            if ln:
                out.append(json.loads(ln))
    return out


def split_trace(path, sdir, nparts, block_ev):
    """Split an ndjson trace into nparts files at block boundaries (lines whose ev is in block_ev start a block)."""
    blocks, cur = [], []
    with open(path) as fh:
        for ln in fh:
            if not ln.strip():
                continue
            m = re.search(r'"ev":\s*"([a-zA-Z0-9_]+)"', ln)
            ev = m.group(1) if m else ""
            if ev in block_ev and cur:
                blocks.append(cur)
                cur = []
            cur.append(ln)
    if cur:
        blocks.append(cur)
    nparts = max(1, min(nparts, len(blocks)))
    sizes = [0] * nparts
    parts = [[] for _ in range(nparts)]
    for b in sorted(blocks, key=lambda b: -sum(len(x) for x in b)):
        i = sizes.index(min(sizes))
        parts[i].append(b)
        sizes[i] += sum(len(x) for x in b)
    files = []
    for i, p in enumerate(parts):
        fp = os.path.join(sdir, "part%02d.ndjson" % i)
        with open(fp, "w") as fh:
            for b in p:
                fh.writelines(b)
        files.append(fp)
    return files, len(blocks)


def shorten(o, depth=0):
    """Compact a JSON value for the evidence samples."""
    if isinstance(o, dict):
        return {k: shorten(v, depth + 1) for k, v in list(o.items())[:14]}
    if isinstance(o, list):
        if len(o) > 6 and all(isinstance(x, int) for x in o):
            return o[:6] + ["...(%d bytes)" % len(o)]
        r = [shorten(x, depth + 1) for x in o[:3]]
        if len(o) > 3:
            r.append("...(%d items)" % len(o))
        return r
    return o


def canon_hash(o, drop=("id", "seq", "note")):
    def strip(x):
        if isinstance(x, dict):
            return {k: strip(v) for k, v in sorted(x.items()) if k not in drop}
        if isinstance(x, list):
            return [strip(v) for v in x]
        return x
    return hashlib.sha1(json.dumps(strip(o), sort_keys=True).encode()).hexdigest()


# ----------------------------------------------------------------------------------------------
# known findings
# ----------------------------------------------------------------------------------------------
def match_known(pid, fail, known):
    """fail: dict(mon, id, fam, info{...}). A finding matches when every key of its `match` equals the failure's
    value (keys of info are addressed directly)."""
    for k in known.get("findings", []):
        if k.get("property") != pid:
            continue
        ok = True
        for key, val in k.get("match", {}).items():
            got = fail.get(key, fail.get("info", {}).get(key))
            if isinstance(val, list):
                if got not in val:
                    ok = False
            elif got != val:
                ok = False
        if ok:
            return k
    return None


# ----------------------------------------------------------------------------------------------
# TLC steps
# ----------------------------------------------------------------------------------------------
def run_mc(sdir, spec, tier):
    """spec: dict(module, cfg (or dict per tier), workers, timeout). Returns result dict; raises NoVerdict on a
    model-level failure (a property violated on the MODEL is a lead, not a verdict: the model or the property is
    wrong and must be repaired)."""
    cfg = spec["cfg"][tier] if isinstance(spec["cfg"], dict) else spec["cfg"]
    r = vf.tlc(sdir, spec["module"], cfg, workers=spec.get("workers", 8), timeout=spec.get("timeout", 3000),
               heap=spec.get("heap", "8g"), extra=spec.get("extra"), tag="-mc")
    if not r.get("ok"):
        tail = "\n".join(r["out"].splitlines()[-40:])
        raise vf.NoVerdict("model checking of %s/%s did not succeed:\n%s" % (spec["module"], cfg, tail))
    return r


def run_gen(sdir, spec, tier, seed):
    """Run a scenario-emitting TLC configuration; the emitted JSON values (one per line) go to a file.
    spec may be a list of such configurations: their outputs are concatenated."""
    if isinstance(spec, list):
        path = os.path.join(sdir, "scenarios-%s.ndjson" % "+".join(sp["module"] for sp in spec))
        total, last = 0, None
        with open(path, "w") as out:
            for sp in spec:
                pth, n, last = run_gen(sdir, sp, tier, seed)
                total += n
                with open(pth) as src:
                    shutil.copyfileobj(src, out)
        return path, total, last
    cfgs = spec["cfg"][tier] if isinstance(spec["cfg"], dict) else spec["cfg"]
    if not isinstance(cfgs, list):
        cfgs = [cfgs]
    extra = list(spec.get("extra", []))
    if spec.get("simulate"):
        sim = spec["simulate"][tier]
        extra += ["-simulate", "num=%d" % sim["num"], "-depth", str(sim["depth"]), "-seed", str(seed)]
    vals = []
    r = None
    for ci, cfg in enumerate(cfgs):
        r = vf.tlc(sdir, spec["module"], cfg, workers=1, timeout=spec.get("timeout", 1800), heap="4g", extra=extra, tag="-gen%d" % ci)
        if not r.get("ok"):
            raise vf.NoVerdict("scenario generation %s/%s failed:\n%s" % (spec["module"], cfg, r["out"][-2000:]))
        got = vf.tlc_printed(r["out"])
        if not got:
            raise vf.NoVerdict("scenario generation %s/%s produced nothing:\n%s" % (spec["module"], cfg, r["out"][-2000:]))
        vals += got
    path = os.path.join(sdir, "scenarios-%s.ndjson" % spec["module"])
    seen = set()
    with open(path, "w") as fh:
        for v in vals:
            s = json.dumps(v, sort_keys=True)
            if s in seen:
                continue
            seen.add(s)
            fh.write(s + "\n")
    return path, len(seen), r


STATS = {}

# monitors of bounded-time clauses (a wait that ran out): confirmed by replaying the scenario on its own before they are reported
TIMING_MONITORS = {"C05.stream-returns", "C05.error-returns", "C05.connection-closed", "C05.no-goroutine-left"}


def validate_trace(sdir, module, cfg, trace, props, nparts, block_ev, extra_consts=None, timeout=3000, heap="3g"):
    files, nblocks = split_trace(trace, sdir, nparts, block_ev)
    fails, summaries, outs = [], [], []

    def one(i_fp):
        i, fp = i_fp
        consts = {"TraceFile": '"%s"' % fp, "Props": "{" + ",".join('"%s"' % p for p in props) + "}"}
        if extra_consts:
            consts.update(extra_consts)
        return vf.tlc(sdir, module, cfg, workers=1, timeout=timeout, heap=heap, consts=consts, tag="-val%02d" % i)

    # at most 8 validation JVMs at a time (each may fill its 3 GB heap on the large thorough traces: 16 at a time came to
    # 55 GB and met the OOM killer on a busy 62 GB machine)
    with concurrent.futures.ThreadPoolExecutor(max_workers=min(8, len(files))) as ex:
        results = list(ex.map(one, enumerate(files)))
    states = trans = 0
    for r in results:
        out = r["out"]
        if not r.get("ok") or "SUMMARY" not in out:
            tail = "\n".join(l for l in out.splitlines() if not l.startswith(("Parsing", "Semantic", "Linting")))[-3000:]
            raise vf.NoVerdict("trace validation (%s) did not complete:\n%s" % (module, tail))
        states += r.get("distinct", 0)
        trans += r.get("generated", 0)
        for ln in out.splitlines():
            m = re.match(r'^<<"MONFAIL", (".*")>>$', ln.strip())
            if m:
                fails.append(json.loads(json.loads(m.group(1))))
            m = re.match(r'^<<"MONSTAT", "parser", (\d+)>>$', ln.strip())
            if m:
                STATS["parser_attempts"] = STATS.get("parser_attempts", 0) + int(m.group(1))
    return fails, nblocks, states, trans, results


# ----------------------------------------------------------------------------------------------
# implementation-level trace validation of the concurrency model (spec/Trace_Conn.tla)
# ----------------------------------------------------------------------------------------------
READER_HOOKS = {"reader.read", "reader.handoff", "reader.readError", "reader.handedOff", "reader.sawCtx", "reader.sawDone",
                "reader.published", "reader.closeEvents", "reader.exit"}
CONN_MAX_ATTEMPTS = 3


def conn_trace(lines):
    """Project the recorded trace onto Trace_Conn's vocabulary. Only scenarios whose attempts were all hook-traced,
    all returned, and number at most CONN_MAX_ATTEMPTS are kept. Returns (list of scenario blocks, each a list of lines)."""
    blocks, cur, ok = [], None, False
    for o in lines:
        ev = o.get("ev")
        if ev == "scenario":
            atts = o.get("attempts", [])
            ok = bool(atts) and len(atts) <= CONN_MAX_ATTEMPTS and all(a.get("hookTrace") for a in atts) and not o.get("resume")
            cur = [{"e": "scenario", "id": o.get("id"), "fam": o.get("fam", "")}]
            continue
        if cur is None:
            continue
        if ev == "end":
            if ok and any(x["e"] == "hook" for x in cur):
                cur.append({"e": "end", "id": o.get("id")})
                blocks.append(cur)
            cur = None
            continue
        if not ok:
            continue
        a = o.get("att", 0)
        if isinstance(a, int) and a >= 1000:
            ok = False
            continue
        if ev == "attempt":
            pl = o.get("plan", {})
            fk = (pl.get("fault") or {}).get("kind", "none")
            m = {"err": "ERR", "eof": "EOF", "close": "transport", "reset": "transport", "short": "transport", "outofseq": "transport"}.get(fk)
            if m is None:
                m = "EOF" if pl.get("end") == "eof" else "none"
            if pl.get("connfault", "none") != "none" or pl.get("dead"):
                m = "transport"
            cur.append({"e": "attempt", "a": a, "m": m})
        elif ev == "hook":
            cur.append({"e": "hook", "a": a, "p": o["p"]})
        elif ev == "cancel":
            cur.append({"e": "cancel", "a": a})
        elif ev == "streamReturn":
            if not o.get("returned"):
                ok = False
            else:
                cur.append({"e": "ret", "a": a, "res": "nil" if o["res"]["nil"] else "err"})
        elif ev == "errorReturn":
            if not o.get("returned"):
                ok = False
            else:
                cur.append({"e": "error", "a": a, "call": o.get("call", 1), "res": "nil" if o["res"]["nil"] else "err"})
        elif ev in ("abandoned", "panic"):
            ok = False
    return blocks


def validate_conn(sdir, lines, tag=""):
    """Validate the hook-level trace against MC_Conn (Trace_Conn.tla). A scenario the specification cannot match is
    reported (it decides no property) and validation goes on with the scenarios after it.
    Returns dict(scenarios, lines, rejected=[{id, fam, line, at}], states)."""
    blocks = conn_trace(lines)
    res = {"scenarios": len(blocks), "lines": sum(len(b) for b in blocks), "rejected": [], "states": 0}
    rounds = 0
    while blocks and rounds < 8:
        rounds += 1
        path = os.path.join(sdir, "conn%s-%d.ndjson" % (tag, rounds))
        flat, owner = [], []
        for bi, b in enumerate(blocks):
            for x in b:
                flat.append(x)
                owner.append(bi)
        with open(path, "w") as fh:
            for x in flat:
                fh.write(json.dumps(x) + "\n")
        r = vf.tlc(sdir, "Trace_Conn", "Trace_Conn.cfg", workers=1, timeout=1800, heap="3g", consts={"TraceFile": '"%s"' % path},
                   tag="%s-r%d" % (tag, rounds), jvm=["-Dtlc2.tool.impl.Tool.cdot=true"])
        m = re.search(r'<<"CONNTRACE", (\d+), (\d+)>>', r["out"])
        res["states"] += r.get("distinct", 0)
        inv = re.search(r"Invariant (\w+) is violated", r["out"])
        if not m and inv:
            # a safety property of MC_Conn does not hold in a state of the matched behaviour: the scenario is rejected at the line
            # that led there (reported like any other mismatch: it decides no property, the monitors do)
            ls = [int(x) for x in re.findall(r"/\\ l = (\d+)", r["out"])]
            reached = max(0, (max(ls) if ls else 1) - 2)
            bi = owner[min(reached, len(owner) - 1)]
            first = owner.index(bi)
            res["rejected"].append({"id": blocks[bi][0].get("id"), "fam": blocks[bi][0].get("fam"), "line": flat[min(reached, len(flat) - 1)],
                                    "at": reached - first, "before": flat[max(first, reached - 6):reached], "invariant": inv.group(1)})
            blocks = blocks[bi + 1:]
            continue
        if not m:
            # this validation decides no property: a failure of it must not void the verdict of the monitors
            tail = "\n".join(l for l in r["out"].splitlines() if not l.startswith(("Parsing", "Semantic", "Linting")))[-1200:]
            res["aborted"] = tail
            res["rejected"].append({"id": blocks[0][0].get("id"), "fam": blocks[0][0].get("fam"), "line": {"e": "validation aborted"}, "at": 0,
                                    "before": [], "aborted": tail[-300:]})
            break
        reached, total = int(m.group(1)), int(m.group(2))
        if reached >= total:
            break
        # line `reached + 1` (1-based) could not be matched: its scenario is rejected
        bi = owner[reached] if reached < len(owner) else len(blocks) - 1
        b = blocks[bi]
        first = owner.index(bi)
        res["rejected"].append({"id": b[0].get("id"), "fam": b[0].get("fam"), "line": flat[reached], "at": reached - first,
                                "before": flat[max(first, reached - 6):reached]})
        blocks = blocks[bi + 1:]
    return res


# the generic flow
# ----------------------------------------------------------------------------------------------
def parse_race_logs(sdir, prefix):
    """Go race detector reports -> list of dict(pair, a, b). pair classifies the two stacks by their first
    library/driver frames (the known driver race is Close vs ReadPacket)."""
    import glob
    out = []
    for fp in sorted(glob.glob(prefix + "*")):
        txt = open(fp, errors="replace").read()
        for rep in txt.split("WARNING: DATA RACE")[1:]:
            rep = rep.split("==================")[0]
            parts = re.split(r"\n\n", rep.strip())
            stacks = []
            for part in parts[:2]:
                fr = [l.strip().split("(")[0] + "()" if False else l.strip() for l in part.splitlines()[1:] if l.strip() and not l.startswith("      ")]
                fr = [re.sub(r"\(\)$", "", f) for f in fr]
                stacks.append(fr)
            if len(stacks) < 2:
                stacks.append([])

            def lib(fr):
                return [f for f in fr if "Breeze0806/" in f and "gobinlog_test." not in f]
            la, lb = lib(stacks[0]), lib(stacks[1])
            ja, jb = " ".join(la), " ".join(lb)

            def is_close(fr):
                # the racing access is inside the driver, below mysqlConn.Close called by slaveConnection.close
                j = " ".join(fr)
                return bool(fr) and "Breeze0806/mysql." in fr[0] and "mysql.(*mysqlConn).Close" in j and "(*slaveConnection).close" in j

            def is_read(fr):
                # the reader goroutine touching the driver's packet buffer: inside ReadPacket, or copying the packet
                # it returned (readBinlogEvent)
                j = " ".join(fr)
                return bool(fr) and "readBinlogEvent" in j and ("Breeze0806/mysql." in fr[0] or fr[0].endswith(".readBinlogEvent"))
            if (is_close(la) and is_read(lb)) or (is_close(lb) and is_read(la)):
                pair = "driver: mysqlConn.Close (COM_QUIT write) vs DumpConn.ReadPacket"
            else:
                pair = "other: %s | %s" % ((la or stacks[0] or ["?"])[0], (lb or stacks[1] or ["?"])[0])
            out.append({"pair": pair, "a": la[:6], "b": lb[:6]})
    return out


def run_part(part, P, pid, tier, seed, sdir, only, binaries, gen_path, idx):
    """One harness mode + its trace validation. Returns dict(fails, blocks, lines, vstates, vtrans, nblocks)."""
    race = part.get("race", False)
    if race not in binaries:
        binaries[race] = vf.build_harness(sdir, race=race)
    binary = binaries[race]
    block_ev = part.get("block_ev", ["scenario"])
    traces = []
    races = []
    for run_i, tz in enumerate(part.get("zones", ["UTC"])):
        out = os.path.join(sdir, "trace-%d-%d.ndjson" % (idx, run_i))
        env = {"VERIF_ZONE": tz}
        if only is not None:
            env["VERIF_ONLY"] = str(only)
        racepfx = os.path.join(sdir, "race-%d-%d" % (idx, run_i))
        if race:
            env["GORACE"] = "halt_on_error=0 exitcode=0 log_path=%s" % racepfx
        start_from = 0
        crashes = []
        for restart in range(25):
            if start_from:
                env["VERIF_FROM"] = str(start_from)
                env["VERIF_APPEND"] = "1"
            rc, hout = vf.run_harness(binary, part["mode"], out, seed, tier, infile=gen_path, tz=tz, extra_env=env,
                                      timeout=part.get("harness_timeout", 3000))
            if rc == 0 or (race and "race detected during execution of test" in hout and "panic:" not in hout):
                break
            if "panic:" in hout or "fatal error:" in hout:
                # the library panicked: attribute the crash to the scenario in progress and go on with the next one
                cur = None
                ended = set()
                for ln in open(out):
                    m = re.search(r'"ev":\s*"([a-zA-Z0-9_]+)"', ln)
                    if not m:
                        continue
                    if m.group(1) in block_ev:
                        cur = json.loads(ln)
                    if m.group(1) == "end":
                        ended.add(json.loads(ln).get("id"))
                if cur is None or cur.get("id") in ended:
                    raise vf.NoVerdict("harness crashed outside a scenario:\n%s" % hout[-3000:])
                pm = re.search(r"(panic:[^\n]*|fatal error:[^\n]*)", hout)
                with open(out, "a") as fh:
                    fh.write(json.dumps({"ev": "panic", "id": cur["id"], "att": -1, "msg": (pm.group(1) if pm else "panic")[:300]}) + "\n")
                    fh.write(json.dumps({"ev": "end", "id": cur["id"]}) + "\n")
                start_from = cur["id"] + 1
                crashes.append(cur["id"])
                continue
            raise vf.NoVerdict("harness (%s) exited with %d:\n%s" % (part["mode"], rc, hout[-3000:]))
        else:
            # the library panics in scenario after scenario: what was recorded so far (every crash is attributed to its
            # scenario) is judged; the rest of the run is given up
            print("note: the library crashed in %d scenarios of this run (%s...); the remaining scenarios were not run" % (len(crashes), crashes[:5]))
        if race:
            rr = parse_race_logs(sdir, racepfx)
            with open(out, "a") as fh:
                for r in rr:
                    fh.write(json.dumps({"ev": "race", "att": -1, "pair": r["pair"], "a": r["a"], "b": r["b"]}) + "\n")
            races += rr
        traces.append(out)
    trace = os.path.join(sdir, "trace-%d.ndjson" % idx)
    with open(trace, "w") as fh:
        for tpath in traces:
            with open(tpath) as src:
                shutil.copyfileobj(src, fh)
    nparts = 32 if tier == "thorough" else part.get("quick_parts", 8)
    fails, nblocks, vstates, vtrans, results = validate_trace(
        sdir, part["trace_module"], part["trace_cfg"], trace, part["props"], nparts, block_ev,
        extra_consts=part.get("trace_consts"), heap=part.get("trace_heap", "3g"))
    lines = read_trace(trace)
    blocks = [l for l in lines if l.get("ev") in block_ev]
    if part.get("drift_props"):
        # model-conformance monitors (DRIFT.*): a pass of their own; whatever happens in it decides nothing
        try:
            dfails, _, ds, dt, _ = validate_trace(sdir, part["trace_module"], part["trace_cfg"], trace, part["drift_props"], nparts, block_ev,
                                                  extra_consts=part.get("trace_consts"), heap=part.get("trace_heap", "3g"))
            vstates += ds
            vtrans += dt
            fails += [f for f in dfails if str(f.get("mon", "")).startswith("DRIFT.")]
        except vf.NoVerdict as ex:
            fails.append({"mon": "DRIFT.aborted", "id": 0, "fam": part["mode"],
                          "info": {"what": "the model-conformance pass did not complete (it decides no property)", "detail": str(ex)[-400:]}})
    for f in fails:
        f["part"] = idx
    conn = None
    if part.get("conn"):
        # implementation-level validation of the concurrency model against the hook traces of this run (decides no property)
        conn = validate_conn(sdir, lines, tag="-p%d" % idx)
        vstates += conn["states"]
        for rj in conn["rejected"]:
            fails.append({"mon": "DRIFT.trace-conn", "id": rj["id"], "fam": rj["fam"], "part": idx,
                          "info": {"what": "the hook-level trace of the scenario is not a behaviour of MC_Conn (Trace_Conn.tla)",
                                   "line": rj["line"], "at": rj["at"], "before": rj["before"]}})
    scripts = [l for l in lines if l.get("ev") == "script"]
    # which actions of MC_Conn the followed schedules made the real code take
    acts = {}
    cur = None
    for l in lines:
        if l.get("ev") == "scenario":
            cur = l
        elif l.get("ev") == "script" and l.get("followed") and cur is not None:
            for a in cur.get("attempts", []):
                for st in a.get("script", []) or []:
                    acts[st] = acts.get(st, 0) + 1
    return dict(fails=fails, blocks=blocks, nlines=len(lines), vstates=vstates, vtrans=vtrans, nblocks=nblocks, races=len(races), conn=conn,
                scripts_followed=sum(1 for l in scripts if l.get("followed")), scripts_diverged=sum(1 for l in scripts if not l.get("followed")), script_actions=acts)


def run(pid, tier, seed, sdir, replay, t0):
    P = REGISTRY[pid]
    parts = P.get("parts") or [P]
    known = vf.load_known()
    only = None
    only_part = None
    if replay:
        rp = json.load(open(replay))
        seed, tier, only, only_part = rp["seed"], rp["tier"], rp.get("only"), rp.get("part", 0)
        print("replaying %s: seed=%s tier=%s scenario=%s" % (replay, seed, tier, only))
    mc_states = mc_trans = 0
    mc_notes = []
    if not replay:
        for spec in P.get("mc", []):
            r = run_mc(sdir, spec, tier)
            mc_states += r.get("distinct", 0)
            mc_trans += r.get("generated", 0)
            mc_notes.append("%s/%s: %d distinct states, %d generated, %.0fs" % (
                spec["module"], spec["cfg"][tier] if isinstance(spec["cfg"], dict) else spec["cfg"],
                r.get("distinct", 0), r.get("generated", 0), r["wall"]))
    tlaps_n = 0
    if not replay:
        for mod in P.get("tlaps", []) + (P.get("tlaps_thorough", []) if tier == "thorough" else []):
            # machine-checked proofs (TLAPS): unbounded counterparts of bounded model-checking results
            wd = os.path.join(sdir, "tlaps-" + mod)
            shutil.copytree(vf.SPEC, wd)
            try:
                pr = subprocess.run(["tlapm", "--threads", "8", mod + ".tla"], cwd=wd, stdout=subprocess.PIPE, stderr=subprocess.STDOUT,
                                    text=True, errors="replace", timeout=1200)
            except subprocess.TimeoutExpired:
                raise vf.NoVerdict("tlapm timed out on %s" % mod)
            m = re.search(r"All (\d+) obligations? proved", pr.stdout)
            if not m:
                raise vf.NoVerdict("TLAPS could not check %s.tla:\n%s" % (mod, pr.stdout[-1500:]))
            tlaps_n += int(m.group(1))
            mc_notes.append("%s.tla: %s proof obligations discharged by TLAPS" % (mod, m.group(1)))
    gen_path, gen_n = "", 0
    if P.get("gen"):
        gen_path, gen_n, _ = run_gen(sdir, P["gen"], tier, seed)
    binaries = {}
    results = []
    for idx, part in enumerate(parts):
        if only_part is not None and idx != only_part:
            continue
        results.append(run_part(part, P, pid, tier, seed, sdir, only, binaries, gen_path, idx))
    fails = [f for r in results for f in r["fails"]]
    blocks = [b for r in results for b in r["blocks"]]
    byid = {}
    for i, r in enumerate(results):
        for b in r["blocks"]:
            byid[(i if only_part is None else only_part, b.get("id"))] = b
    harness_bugs = [f for f in fails if str(f.get("mon", "")).startswith("HARNESS.")]
    if harness_bugs:
        raise vf.NoVerdict("the harness's own output failed a HARNESS.* monitor (a defect of the machinery, not of the library): %s"
                           % json.dumps(harness_bugs[:3]))
    drift = [f for f in fails if str(f.get("mon", "")).startswith("DRIFT.")]
    fails = [f for f in fails if not str(f.get("mon", "")).startswith("DRIFT.")]
    for w in sorted({f["info"]["what"] for f in drift}):
        n = sum(1 for f in drift if f["info"]["what"] == w)
        ex = next(f for f in drift if f["info"]["what"] == w)
        print("MODEL-DRIFT property=%s (no verdict depends on it) %s (%d attempts; e.g. scenario %s part %s: %s)" % (
            pid, w, n, ex.get("id"), ex.get("part", 0), json.dumps({k: v for k, v in ex["info"].items() if k != "what"})[:600]))
    viol, knownhits = [], {}
    for f in fails:
        k = match_known(pid, f, known)
        if k:
            knownhits.setdefault(k["id"], [k, 0])[1] += 1
        else:
            viol.append(f)
    for kid, (k, n) in sorted(knownhits.items()):
        print("KNOWN-FINDING: property=%s %s (%d instances in this run)" % (pid, k["what"], n))
    rc = 0
    if replay:
        print("replay finished: %d monitor failures, %d not covered by known findings" % (len(fails), len(viol)))
        for f in fails[:20]:
            print("  ", json.dumps(f))
        return 1 if viol else 0
    if viol:
        seen = []
        for f in viol:
            key = (f.get("part", 0), f.get("id"))
            if key in seen:
                continue
            seen.append(key)
            if len(seen) > 5:
                break
            os.makedirs(os.path.join(VERIF, "replays"), exist_ok=True)
            rp = os.path.join(VERIF, "replays", "%s-%s-s%d-p%d-%s.json" % (pid, tier, seed, key[0], key[1]))
            mine = [x for x in viol if (x.get("part", 0), x.get("id")) == key]
            with open(rp, "w") as fh:
                json.dump({"property": pid, "seed": seed, "tier": tier, "only": f.get("id"), "part": key[0],
                           "mode": parts[key[0]]["mode"],
                           "failures": mine[:20],
                           "scenario": shorten(byid.get(key, {}))}, fh, indent=1)
            # A scenario whose ONLY failures are bounded-time observations ("did not return / close / leave within bounded time") is
            # run again on its own before it is reported: on a machine that is busy with other work a wait can run out although
            # nothing is wrong, and one such observation must not discredit the check. What reproduces (in either of two replays)
            # is a VIOLATION; what does not is printed as UNCONFIRMED-TIMING and decides nothing.
            if mine and all(x.get("mon") in TIMING_MONITORS for x in mine):
                confirmed = False
                for attempt in range(2):
                    pr = subprocess.run([sys.executable, os.path.join(VERIF, "check"), pid, "--tier", tier, "--replay", rp],
                                        stdout=subprocess.PIPE, stderr=subprocess.STDOUT, text=True, errors="replace",
                                        env=dict(os.environ, VERIF_SEED=str(seed)))
                    if pr.returncode == 1:
                        confirmed = True
                        break
                if not confirmed:
                    print("UNCONFIRMED-TIMING property=%s scenario=%s monitor=%s: observed once, not reproduced in 2 replays of the scenario on its own (replay file %s)" % (
                        pid, key[1], mine[0].get("mon"), rp))
                    continue
            print("VIOLATION property=%s replay=%s" % (pid, rp))
            print("  monitor=%s info=%s" % (f.get("mon"), json.dumps(f.get("info"))))
            rc = 1
    nontriv = P.get("nontrivial", lambda b: True)
    distinct = len({canon_hash(b) for b in blocks if nontriv(b)})
    vstates = sum(r["vstates"] for r in results)
    vtrans = sum(r["vtrans"] for r in results)
    cov = {
        "states": max(1, mc_states + vstates), "transitions": max(1, mc_trans + vtrans),
        "model_states": mc_states, "model_transitions": mc_trans,
        "trace_states": vstates,
        "traces_validated_against_impl": sum(r["nblocks"] for r in results),
        "evaluations": len(blocks), "distinct_nontrivial": distinct,
        "scenarios_generated_by_tlc": gen_n,
        "rule": P["rule"],
        "samples": [shorten(b) for b in blocks[:2]] or ["(none)"],
        "monitors": sorted({p for part in parts for p in part["props"]}),
        "monitor_failures": len(fails), "known_finding_instances": sum(n for _, n in knownhits.values()),
        "race_reports": sum(r["races"] for r in results),
        "model_drift_failures": len(drift),
        "conn_trace_scenarios_validated_against_MC_Conn": sum((r.get("conn") or {}).get("scenarios", 0) for r in results),
        "attempts_replayed_against_Streamer_Step": STATS.get("parser_attempts", 0),
        "tlc_schedules_followed_to_the_end": sum(r.get("scripts_followed", 0) for r in results),
        "tlc_schedules_diverged": sum(r.get("scripts_diverged", 0) for r in results),
        "model_actions_taken_by_the_real_code_in_followed_schedules": merge_counts([r.get("script_actions", {}) for r in results]),
        "conn_trace_lines": sum((r.get("conn") or {}).get("lines", 0) for r in results),
        "conn_trace_rejected": sum(len((r.get("conn") or {}).get("rejected", [])) for r in results),
        "hook_traced_attempts": sum(1 for b in blocks for a in b.get("attempts", []) if isinstance(a, dict) and a.get("hookTrace")),
        "model_checking": mc_notes,
        "tlaps_obligations_proved": tlaps_n,
        "checker_cmd": "java -cp tla2tools.jar tlc2.TLC -config <cfg> {%s}.tla" % ", ".join(
            sorted({part["trace_module"] for part in parts} | {s["module"] for s in P.get("mc", [])})),
        "trusted_base": ["TLC 1.8.0 + CommunityModules Json", "Go toolchain (and its race detector where used)",
                         "harness recorder/projections (harness/root)"],
        "exhaustive": bool(P.get("exhaustive", False)),
        "trace_lines": sum(r["nlines"] for r in results),
    }
    vf.write_evidence(pid, tier, seed, "model_checking", cov, time.time() - t0, len(viol), P.get("assumptions", []))
    print("%s %s: %d scenarios validated, %d monitor failures (%d known), model: %d states; %.0fs" % (
        pid, tier, len(blocks), len(fails), cov["known_finding_instances"], mc_states, time.time() - t0))
    return rc


def merge_counts(ds):
    out = {}
    for d in ds:
        for k, v in d.items():
            out[k] = out.get(k, 0) + v
    return dict(sorted(out.items()))


def has_tx(b):
    return any(u["u"] in ("txxid", "txcommit", "txrollback", "ddl", "autorow", "stmtdml")
               for f in b.get("files", []) for u in f.get("units", []))


STREAM_ASSUME = [
    "simulated master speaks the subset of the MySQL protocol in DESIGN.md Appendix A.1; the real driver Breeze0806/mysql is used unchanged",
    "binlog bytes come from the harness's independent writer (harness/root/vf_binlog.go), not from replication/binlog_event_make.go",
    "harness process runs with TZ=UTC; FLOAT/DOUBLE texts are compared by strconv.ParseFloat parse-back bits",
]

MC_CELLSPEC = dict(module="Test_CellCodec", cfg="Test_CellCodec.cfg", workers=1)
CODEC_ASSUME = [
    "expected texts are computed by TLC from spec/CellCodec.tla, transcribed from the MySQL documentation (DESIGN.md Appendix A) and unit-tested "
    "against server-captured vectors (spec/Test_CellCodec.tla)",
    "the library's metadata for a column is obtained through the real TableMap() decoder from wire metadata bytes",
    "FLOAT/DOUBLE: text must be plain decimal (checked in TLA+) and parse back (strconv.ParseFloat, logged by the harness) to the stored bits",
]
MC_SESSION = dict(module="MC_Session", cfg={"quick": "MC_Session.quick.cfg", "thorough": "MC_Session.thorough.cfg"}, workers=12)
MC_CONN = dict(module="MC_Conn", cfg={"quick": "MC_Conn.quick.cfg", "thorough": "MC_Conn.thorough.cfg"}, workers=8)
MC_CONN_SPEC = dict(module="MC_Conn", cfg="MC_Conn.spec.cfg", workers=8)
MC_BUFFERS = dict(module="MC_Buffers", cfg="MC_Buffers.cfg", workers=4)
MC_STREAMER = dict(module="MC_Streamer", cfg={"quick": "MC_Streamer.quick.cfg", "thorough": "MC_Streamer.thorough.cfg"}, workers=12)

GEN_SESSION = dict(module="Gen_Session", cfg={"quick": "Gen_Session.quick.cfg", "thorough": ["Gen_Session.thorough.cfg", "Gen_Session.thorough2.cfg"]})
GEN_CONN = [dict(module="Gen_Conn", cfg={"quick": "Gen_Conn.quick.cfg", "thorough": "Gen_Conn.thorough.cfg"},
                 simulate={"quick": {"num": 150, "depth": 60}, "thorough": {"num": 2500, "depth": 80}}),
            # behaviours over two Stream calls on one Streamer (the first call's reader may still be on its way out during the second)
            dict(module="Gen_Conn", cfg="Gen_Conn.two.cfg", simulate={"quick": {"num": 60, "depth": 90}, "thorough": {"num": 800, "depth": 90}}),
            # one script per transition of MC_Conn's state graph (quick: MaxPkts = 1, a twelfth of them chosen by the seed; thorough: MaxPkts = 2, all)
            dict(module="Cover_Conn", cfg={"quick": ["Cover_Conn.cfg", "Cover_Conn.cross.cfg"], "thorough": ["Cover_Conn.thorough.cfg", "Cover_Conn.cross.thorough.cfg"]})]

REGISTRY = {
    "C01": dict(mode="c01", mc=[MC_STREAMER], trace_module="Trace_Stream", trace_cfg="Trace_Stream.cfg", props=["C01"],
                nontrivial=has_tx, assumptions=STREAM_ASSUME,
                rule="scenario = generated well-formed binlog history x wire configuration x start boundary, run through the real "
                     "Stream(); distinct = distinct scenario content (sha1 of log+config+start); non-trivial = the history "
                     "after the start position contains at least one committing unit"),
    "C02": dict(mode="c02", mc=[MC_STREAMER], trace_module="Trace_Stream", trace_cfg="Trace_Stream.cfg", props=["C02"],
                nontrivial=has_tx, assumptions=STREAM_ASSUME,
                gen=dict(module="Gen_Units", cfg={"quick": "Gen_Units.quick.cfg", "thorough": "Gen_Units.thorough.cfg"}),
                rule="scenario = unit sequence over C02's 13-unit alphabet (exhaustive from TLC up to the tier's bound, random beyond), "
                     "all casings of begin/commit/rollback drawn per scenario; distinct by content; non-trivial = contains a committing unit"),
    "C04": dict(parts=[dict(mode="c04", trace_module="Trace_Stream", trace_cfg="Trace_Stream.cfg", props=["C04"]),
                       dict(mode="c04g", conn=True, trace_module="Trace_Stream", trace_cfg="Trace_Stream.cfg", props=["C04"], drift_props=["D04"])],
                mc=[MC_SESSION], nontrivial=has_tx, assumptions=STREAM_ASSUME,
                gen=GEN_SESSION,
                rule="scenario = history x (fault kind x packet/transaction index) as failed attempt(s) on ONE Streamer object, then a clean "
                     "attempt; fault kinds: socket close/reset, short packet, out-of-sequence packet, ERR, EOF, cancel, handler error, mapper "
                     "error, mapper column-count mismatch, RowsQuery/IntVar/Rand event, invalid event; both pacings; distinct by content. "
                     "Part 2: EVERY session of the TLC model MC_Session within the bound (Gen_Session: logs of <= 2 units x one fault action at "
                     "every point + clean attempt in quick; <= 3 units, and <= 2 units with two failed attempts, in thorough) replayed on the "
                     "real Streamer with hook tracing; each attempt's hook trace is validated packet by packet against Streamer!Step"),
    "C05": dict(parts=[dict(mode="c05", race=True, conn=True, trace_module="Trace_Stream", trace_cfg="Trace_Stream.cfg", props=["C05"], drift_props=["D05"]),
                       dict(mode="c05g", conn=True, trace_module="Trace_Stream", trace_cfg="Trace_Stream.cfg", props=["C05"], drift_props=["D05"])],
                mc=[MC_CONN, MC_CONN_SPEC], nontrivial=has_tx, assumptions=STREAM_ASSUME + [
                    "the data-race clause is decided by the Go race detector on the replayed schedules (the Go memory model is not modelled in TLA+)"],
                gen=GEN_CONN, tlaps_thorough=["MC_Conn_proofs"],
                rule="scenario = history x stop cause x stop point x reader state (lock-step: waiting for the network / burst: holding an "
                     "event) x handler fast / blocked-at-stop, followed by a clean attempt; run under go test -race; distinct by content. "
                     "Part 2: behaviours of MC_Conn drawn by TLC (Gen_Conn, simulation under a drawn environment plan: 150 quick / 2500 "
                     "thorough) and one script per TRANSITION of MC_Conn's state graph (Cover_Conn: the shortest path to the source state plus "
                     "the transition; a twelfth of the 1 569 transitions of the 1-packet graph in quick, all 5 428 of the 2-packet graph in "
                     "thorough), plus one script per abstract CROSS transition of the two-call graph (Cover_Conn.cross.cfg: a step of the first "
                     "call's reader while the second call is under way; 248 scripts, a third of them in quick; 2-packet graph in thorough), "
                     "replayed on the real code with the library's hook points as scheduler gates, so that the real goroutines "
                     "take their steps in the order TLC chose; followed by a clean attempt"),
    "C06": dict(parts=[dict(mode="c06", conn=True, trace_module="Trace_Stream", trace_cfg="Trace_Stream.cfg", props=["C06"]),
                       dict(mode="c06g", conn=True, trace_module="Trace_Stream", trace_cfg="Trace_Stream.cfg", props=["C06"], drift_props=["D06"])],
                mc=[MC_CONN, MC_CONN_SPEC], gen=GEN_CONN,
                nontrivial=has_tx, assumptions=STREAM_ASSUME,
                rule="same schedule classes as C05 with arbitrary master error codes/messages; distinct by content; plus the TLC-generated "
                     "schedules of MC_Conn replayed with the hook points as scheduler gates (as C05 part 2)"),
    "C07": dict(parts=[dict(mode="c07", trace_module="Trace_Stream", trace_cfg="Trace_Stream.cfg", props=["C07"]),
                       dict(mode="c07g", trace_module="Trace_Stream", trace_cfg="Trace_Stream.cfg", props=["C07"])],
                mc=[MC_SESSION], gen=GEN_SESSION, assumptions=STREAM_ASSUME,
                rule="scenario = (server id, file name, offset) incl. ids >= 2^31, 255-byte and UTF-8 names, offsets to 2^32-1, 1-3 attempts with "
                     "explicit re-positioning, the empty file name; plus histories with transport faults where later attempts must request the stored "
                     "position; plus the sessions TLC generates from MC_Session (a quarter in quick, a third in thorough): the handshake of every attempt"),
    "C08": dict(mode="c08", mc=[MC_BUFFERS], trace_module="Trace_Stream", trace_cfg="Trace_Stream.cfg", props=["C08"],
                nontrivial=has_tx, assumptions=STREAM_ASSUME, trace_heap="6g",
                rule="scenario = history with event sizes around the driver's 4096-byte buffer x pacing (later packets before/after the handler "
                     "returns) x handler overwriting every delivered byte slice with a per-transaction pattern; every delivery re-read at the end"),
    "C09": dict(parts=[dict(mode="c09", trace_module="Trace_Codec", trace_cfg="Trace_Codec.cfg", props=["C09"], block_ev=["case"]),
                       dict(mode="c09s", trace_module="Trace_Stream", trace_cfg="Trace_Stream.cfg", props=["C09"])],
                mc=[MC_CELLSPEC], assumptions=CODEC_ASSUME + ["rows-event bodies are built by the harness's independent writer from the abstract rows"],
                rule="case = rows event (write/update/delete x v1/v2 x 4/6-byte table id x extra-data length x checksum) over 1..3 columns from one "
                     "representative of each length class, and wide tables over all types and metadata (up to 300 columns, column counts around "
                     "251, up to 50 rows) with random presence and NULL bitmaps, 0..R rows; Rows() result and a CellBytes walk are validated "
                     "against the abstract rows and the spec's CellLen; plus all kinds end to end"),
    "C14": dict(mode="c14", trace_module="Trace_Codec", trace_cfg="Trace_Codec.cfg", props=["C14"], block_ev=["case"],
                mc=[MC_CELLSPEC], assumptions=[
                    "binary JSON comes from the harness's independent serialiser (harness/root/vf_json.go, written from the format description in "
                    "DESIGN.md A.7); the text printed by the library is parsed into a tree by a small parser in the harness (projection)",
                    "doubles are compared by the IEEE bits of strconv.ParseFloat(printed text); keys and strings contain no quote characters"],
                rule="case = document from a recursive generator (depth <= 6, fan-out <= 40; objects, arrays, literals, integers at every width "
                     "boundary in all six integer types, doubles, strings, opaque DATE/TIME (both signs)/DATETIME/DECIMAL), every scalar also at "
                     "top level and inlined/out-of-line inside small and large containers, forced-large encodings, and real >= 64KB documents"),
    "C20": dict(parts=[dict(mode="c20", trace_module="Trace_Codec", trace_cfg="Trace_Codec.cfg", props=["C20"], block_ev=["case"]),
                       dict(mode="c20s", trace_module="Trace_Stream", trace_cfg="Trace_Stream.cfg", props=["C20"])],
                mc=[MC_CELLSPEC], assumptions=[
                    "the JSON text is parsed back with encoding/json (projection); the Go value is projected by the same recorder as deliveries",
                    "texts are compared verbatim when they are valid UTF-8 (RFC 3629 validator in TLA+); type names are checked to identify the type "
                    "(code -> name is a function and injective over the whole run), not against a fixed name table"],
                rule="case = one transaction serialised by the real json.Marshal: every transaction delivered end to end by generated histories "
                     "(all column types) plus synthetic transactions with control characters, quotes, <>&, invalid UTF-8, empty vs nil in names, SQL "
                     "and data, all column type codes, nil/empty row lists, negative and 2^63-scale offsets"),
    "C15": dict(parts=[dict(mode="c15a", trace_module="Trace_Codec", trace_cfg="Trace_Codec.cfg", props=["C15"], block_ev=["case"]),
                       dict(mode="c15b", trace_module="Trace_Stream", trace_cfg="Trace_Stream.cfg", props=["C15"])],
                mc=[MC_STREAMER], assumptions=STREAM_ASSUME,
                rule="case = table-map event (1..600 columns over all types/metadata, names to 255 bytes, every nullability bit, 4/6-byte ids, random "
                     "optional-metadata tails); scenario = transactions whose statements announce tables A, B, C (C re-uses A's id), A under a "
                     "new id, and A's id/name with other column types, inside and across transactions, optionally with a mapper table of another "
                     "column count"),
    "C16": dict(parts=[dict(mode="c16", trace_module="Trace_Codec", trace_cfg="Trace_Codec.cfg", props=["C16"], block_ev=["case"]),
                       dict(mode="c16r", trace_module="Trace_Stream", trace_cfg="Trace_Stream.cfg", props=["C16"])],
                mc=[MC_CELLSPEC], assumptions=["event bytes come from the harness's independent writer (DESIGN.md Appendix A.2-A.4)"],
                rule="case = one event decoded by the real accessors: FORMAT_DESCRIPTION (server versions 0..50 bytes, 27..255 header-size entries, "
                     "checksum algorithm off/CRC32/undefined), ROTATE, QUERY with every subset (in MySQL's order) of status variables 0..20 with "
                     "random payloads, database names 0..255 bytes, SQL 0..64KB, XID, INTVAR, RAND; header fields at their boundaries; every "
                     "event with and without the trailing CRC32; plus two streams on one Streamer whose masters announce different "
                     "formats (checksum on / off, other wire options), the second served from a history of its own: each call decodes with "
                     "the format its own stream announces"),
    "C17": dict(parts=[dict(mode="c17a", trace_module="Trace_Codec", trace_cfg="Trace_Codec.cfg", props=["C17"], block_ev=["case"]),
                       dict(mode="c17s", trace_module="Trace_Stream", trace_cfg="Trace_Stream.cfg", props=["C17"]),
                       dict(mode="c17g", trace_module="Trace_Stream", trace_cfg="Trace_Stream.cfg", props=["C17"], drift_props=["D04"])],
                mc=[MC_STREAMER, MC_SESSION], gen=GEN_SESSION, assumptions=STREAM_ASSUME,
                rule="case = byte string of length 0..64 with the length field in {len-1,len,len+1,0,18,19,2^32-1,len+2^8k} x type byte, every "
                     "well-formed event truncated at / extended from every length, random strings; scenario = such a packet injected at every "
                     "index of a history (both pacings) followed by a clean attempt; plus every session of MC_Session (Gen_Session) in which the "
                     "model injects an invalid packet, replayed on the real Streamer"),
    "C10": dict(parts=[dict(mode="c10", trace_module="Trace_Codec", trace_cfg="Trace_Codec.cfg", props=["C10"], block_ev=["case"]),
                       dict(mode="c10s", trace_module="Trace_Stream", trace_cfg="Trace_Stream.cfg", props=["C10"])],
                mc=[MC_CELLSPEC], assumptions=CODEC_ASSUME,
                rule="case = (column type, wire metadata, signedness, raw cell bytes) decoded by the real CellBytes with the metadata obtained from "
                     "the real TableMap() of a table-map event announcing the column; 8- and 16-bit domains exhaustive in both signedness modes "
                     "(batch lines), 24-bit exhaustive in the thorough tier (sampled chunks in quick), 32/64-bit at every power of two +-1 and "
                     "random, floats over zeros/subnormals/extremes/random, all YEAR bytes, BIT(1..64), ENUM 1-2, SET 1..8; plus the same kinds "
                     "end to end through Stream(); distinct by content"),
    "C11": dict(parts=[dict(mode="c11", trace_module="Trace_Codec", trace_cfg="Trace_Codec.cfg", props=["C11"], block_ev=["case"]),
                       dict(mode="c11s", trace_module="Trace_Stream", trace_cfg="Trace_Stream.cfg", props=["C11"])],
                mc=[MC_CELLSPEC], assumptions=CODEC_ASSUME,
                rule="case = DECIMAL(p,s) for ALL 1520 valid (p,s) x digit classes {all zeros, single low digit, all nines, each 9-digit group "
                     "zero/non-zero, small integer part, random} x sign, encoded by the harness's decimal2bin transcription; distinct by content"),
    "C12": dict(parts=[dict(mode="c12", trace_module="Trace_Codec", trace_cfg="Trace_Codec.cfg", props=["C12"], block_ev=["case"],
                            zones=["UTC", "Asia/Kolkata", "America/New_York", "Australia/Lord_Howe"]),
                       dict(mode="c12s", trace_module="Trace_Stream", trace_cfg="Trace_Stream.cfg", props=["C12"])],
                mc=[MC_CELLSPEC], assumptions=CODEC_ASSUME + [
                    "for TIMESTAMP the UTC offset in force at the instant is logged by the harness from Go's time package (the tz database is data); "
                    "it is pinned by a monitor for the fixed-offset zones UTC and Asia/Kolkata"],
                rule="case = temporal cell: the whole 3-byte domains of old DATE and TIME as batch lines (exhaustive in thorough, sampled chunks in "
                     "quick; the monitor judges raw values that denote valid values), DATETIME/TIMESTAMP and the fractional encodings with fsp 0..6 "
                     "at boundary and random instants, both signs of TIME/TIME2 up to 838:59:59, zero dates and the zero timestamp; the harness "
                     "process is run once per zone"),
    "C13": dict(parts=[dict(mode="c13", trace_module="Trace_Codec", trace_cfg="Trace_Codec.cfg", props=["C13"], block_ev=["case"]),
                       dict(mode="c13r", trace_module="Trace_Codec", trace_cfg="Trace_Codec.cfg", props=["C13"], block_ev=["case"]),
                       dict(mode="c13s", trace_module="Trace_Stream", trace_cfg="Trace_Stream.cfg", props=["C13"])],
                mc=[MC_CELLSPEC], assumptions=CODEC_ASSUME,
                rule="case = CHAR/BINARY (max 0..1023 bytes), VARCHAR (0..65535), BLOB/GEOMETRY (1..4 length bytes) x actual lengths "
                     "{0,1,255,256,max,random} x byte content classes; plus tables of 1..4 such columns end to end with cells "
                     "absent / NULL / empty / value in every column position"),
    "C18": dict(mode="c18", trace_module="Trace_Codec", trace_cfg="Trace_Codec.cfg", props=["C18"], block_ev=["case"],
                mc=[dict(module="MC_GTIDSet", cfg={"quick": "MC_GTIDSet.quick.cfg", "thorough": "MC_GTIDSet.thorough.cfg"}, workers=12)],
                gen=dict(module="Gen_GTIDSet", cfg={"quick": "Gen_GTIDSet.quick.cfg", "thorough": "Gen_GTIDSet.thorough.cfg"}),
                assumptions=["sets are built on the real type from the binary SID-block form written by the harness (public constructor)",
                             "sequence numbers in the algebraic checks stay below 2^31 (TLC integers); 2^63-scale numbers are covered as texts by C19"],
                rule="case = one exported call on the real Mysql56GTIDSet: every set over 2 server UUIDs in the window (enumerated by TLC) x every "
                     "GTID in and just outside the window for AddGTID/ContainsGTID, an evenly strided sample of the pairs (6 000 quick / 250 000 "
                     "thorough; the model check covers all pairs of its window) for Contains/Equal, random wide sets with AddGTID histories of up to 12 steps aimed at interval edges; distinct by content"),
    "C19": dict(mode="c19", trace_module="Trace_Codec", trace_cfg="Trace_Codec.cfg", props=["C19"], block_ev=["case"],
                mc=[dict(module="MC_MariaGTID", cfg="MC_MariaGTID.cfg", workers=4)], tlaps=["MariaGTID_proofs"],
                assumptions=["the flavor's own set parser is reached through a 3-line overlay shim in package replication (harness/repl/vf_shim.go)",
                             "GTID / PREVIOUS_GTIDS / MariaDB GTID event bodies are built by the harness's independent writer"],
                rule="case = print/parse/encode/decode round trip of a GTID (all-00/all-ff/single-byte/random SIDs, sequence numbers to 2^63-1, "
                     "MariaDB domain/server 0..2^32-1), of MySQL 5.6 sets with 0..8 members and 2^62-scale intervals (text, SID block, "
                     "PREVIOUS_GTIDS event), of MariaDB sets with 1..8 members, GTID event bodies, and AddGTID/ContainsGTID histories on MariaDB sets"),
    "C03": dict(mode="c03", mc=[MC_STREAMER], trace_module="Trace_Stream", trace_cfg="Trace_Stream.cfg", props=["C03"],
                nontrivial=has_tx, assumptions=STREAM_ASSUME,
                rule="scenario = generated history (up to 4 files, per-file offset bases up to 2^32) streamed once in full and then once "
                     "more per delivered transaction from its end label; distinct by content; non-trivial = at least one resume stream"),
}
