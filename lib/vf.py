#!/usr/bin/env python3
"""Shared machinery of /verif/check: building the Go harness against /repo's working tree via
`go test -overlay`, running TLC, and writing evidence files."""
import json, os, re, shutil, subprocess, sys, tempfile, time

VERIF = os.path.dirname(os.path.dirname(os.path.abspath(__file__)))
REPO = os.environ.get("VERIF_REPO", "/repo")
SPEC = os.path.join(VERIF, "spec")
TLA_CP = "/opt/veriftools/tla/tla2tools.jar:/opt/veriftools/tla/CommunityModules-deps.jar"

GOENV = dict(os.environ, GOFLAGS="-mod=mod", GOPROXY="off", GOSUMDB="off", GOTOOLCHAIN="local")


class NoVerdict(Exception):
    """Tooling failure: exit 2, never a VIOLATION."""


def scratch():
    base = os.environ.get("VERIF_SCRATCH_BASE") or tempfile.gettempdir()
    # a check that was killed (timeout, OOM killer) cannot remove its scratch directory - thorough traces are gigabytes -:
    # directories of this prefix that nobody has touched for six hours are removed by the next run
    try:
        now = time.time()
        for name in os.listdir(base):
            if name.startswith("vf-"):
                p = os.path.join(base, name)
                if os.path.isdir(p) and now - os.path.getmtime(p) > 6 * 3600 and now - max(
                        [os.path.getmtime(os.path.join(p, x)) for x in os.listdir(p)] or [0]) > 6 * 3600:
                    shutil.rmtree(p, ignore_errors=True)
    except OSError:
        pass
    d = tempfile.mkdtemp(prefix="vf-", dir=base)
    return d


def build_harness(sdir, race=False):
    """go test -c of /repo's root package with the harness files overlaid. Returns the binary path."""
    hroot = os.path.join(VERIF, "harness", "root")
    hrepl = os.path.join(VERIF, "harness", "repl")
    replace = {}
    for f in sorted(os.listdir(hroot)):
        if f.endswith(".go"):
            replace[os.path.join(REPO, "zz_" + f[:-3] + "_test.go")] = os.path.join(hroot, f)
    for f in sorted(os.listdir(hrepl)):
        if f.endswith(".go"):
            # non-test shim files compiled into package replication
            replace[os.path.join(REPO, "replication", "zz_" + f)] = os.path.join(hrepl, f)
    ov = os.path.join(sdir, "overlay.json")
    with open(ov, "w") as fh:
        json.dump({"Replace": replace}, fh)
    out = os.path.join(sdir, "harness.race.test" if race else "harness.test")
    cmd = ["go", "test", "-c", "-tags", "verif", "-vet=off", "-overlay", ov, "-o", out]
    if race:
        cmd.append("-race")
    cmd.append(".")
    p = subprocess.run(cmd, cwd=REPO, env=GOENV, stdout=subprocess.PIPE, stderr=subprocess.STDOUT, text=True, errors="replace")
    if p.returncode != 0 or not os.path.exists(out):
        raise NoVerdict("harness build failed against %s:\n%s" % (REPO, p.stdout[-4000:]))
    return out


def run_harness(binary, mode, out, seed, tier, infile="", timeout=3000, extra_env=None, tz=None):
    env = dict(GOENV, VERIF_MODE=mode, VERIF_OUT=out, VERIF_SEED=str(seed), VERIF_TIER=tier, VERIF_IN=infile or "")
    if tz:
        env["TZ"] = tz
    if extra_env:
        env.update(extra_env)
    p = subprocess.run([binary, "-test.run", "^TestVerif$", "-test.timeout", "%ds" % timeout, "-test.count", "1"],
                       cwd=os.path.dirname(binary), env=env, stdout=subprocess.PIPE, stderr=subprocess.STDOUT, text=True, errors="replace",
                       timeout=timeout + 60)
    return p.returncode, p.stdout


def tlc(sdir, module, cfg, workers=1, timeout=1800, heap="4g", extra=None, consts=None, depthfirst=False, tag="", jvm=None):
    """Run TLC on spec/<module>.tla with spec/<cfg> in a scratch copy of the spec directory.
    consts: dict name->TLA+ expression appended to the cfg as CONSTANT definitions (via a generated
    wrapper module is not needed: plain `CONSTANT name = value` lines work for strings/ints)."""
    wd = os.path.join(sdir, "tlc-%s-%s%s" % (module, os.path.splitext(os.path.basename(cfg))[0], tag))
    if os.path.exists(wd):
        shutil.rmtree(wd)
    shutil.copytree(SPEC, wd)
    cfgpath = os.path.join(wd, os.path.basename(cfg))
    if consts:
        with open(cfgpath, "a") as fh:
            fh.write("\nCONSTANTS\n")
            for k, v in consts.items():
                fh.write("  %s = %s\n" % (k, v))
    # (TLC creates a directory tlc-<n> under java.io.tmpdir at every start and leaves it behind: keep it inside the scratch directory)
    jopts = ["-XX:+UseParallelGC", "-Xmx" + heap, "-Xss512m", "-Djava.io.tmpdir=" + wd]
    if depthfirst:
        jopts.append("-Dtlc2.tool.queue.IStateQueue=StateDeque")
    if jvm:
        jopts += list(jvm)
    cmd = ["java"] + jopts + ["-cp", TLA_CP, "tlc2.TLC", "-metadir", os.path.join(wd, "md"), "-workers", str(workers),
                              "-config", os.path.basename(cfg)]
    if extra:
        cmd += extra
    cmd.append(module + ".tla")
    t0 = time.time()
    try:
        p = subprocess.run(cmd, cwd=wd, stdout=subprocess.PIPE, stderr=subprocess.STDOUT, text=True, errors="replace", timeout=timeout)
    except subprocess.TimeoutExpired:
        raise NoVerdict("TLC timed out on %s/%s" % (module, cfg))
    out = p.stdout
    res = {"rc": p.returncode, "out": out, "wall": time.time() - t0, "cmd": " ".join(cmd), "wd": wd}
    m = re.search(r"(\d+) states generated, (\d+) distinct states found", out)
    if m:
        res["generated"], res["distinct"] = int(m.group(1)), int(m.group(2))
    res["ok"] = ("Model checking completed. No error has been found." in out) or \
                ("Finished computing initial states" in out and p.returncode == 0 and "Error:" not in out)
    return res


def tlc_printed(out):
    """Values printed with PrintT(...) come out on their own lines; return the lines that are JSON strings
    (ToJson output is printed as a TLA+ string: quoted, with escapes)."""
    vals = []
    for ln in out.splitlines():
        ln = ln.strip()
        if ln.startswith('"') and ln.endswith('"'):
            try:
                s = json.loads(ln)
                vals.append(json.loads(s))
            except Exception:
                pass
    return vals


def write_evidence(pid, tier, seed, level, coverage, wall, violations, assumptions):
    evdir = os.environ.get("VERIF_EVIDENCE_DIR") or os.path.join(VERIF, "evidence")
    os.makedirs(evdir, exist_ok=True)
    ev = {"property_id": pid, "tier": tier, "seed": int(seed), "level": level, "coverage": coverage,
          "assumptions": assumptions, "wall_s": round(wall, 2), "violations": violations}
    with open(os.path.join(evdir, pid + ".json"), "w") as fh:
        json.dump(ev, fh, indent=1)
    return ev


def load_known():
    p = os.path.join(VERIF, "known_findings.json")
    if not os.path.exists(p):
        return {"findings": [], "fixed": []}
    return json.load(open(p))
