#!/usr/bin/env python3
"""intake.py Cxx [--round2|--round3] — take the sub-agent's deliverables from /tmp/seed/Cxx/_seed/{A,B}, confirm each in a scratch worktree
(lib/seedtest.py) and, when confirmed, keep it as /verif/seeded/Cxx-<A|B>/ with meta.json."""
import json, os, shutil, subprocess, sys
VERIF = os.path.dirname(os.path.dirname(os.path.abspath(__file__)))
pid = sys.argv[1]
args = sys.argv[2:]
root = "/tmp/seed"
rename = {"A": "A", "B": "B"}
if "--round2" in args:
    args.remove("--round2")
    root = "/tmp/seed2"
    rename = {"A": "C", "B": "D"}
if "--round8" in args:
    args.remove("--round8")
    root = "/tmp/seed8"
    rename = {"A": "O", "B": "P"}
if "--round7" in args:
    args.remove("--round7")
    root = "/tmp/seed7"
    rename = {"A": "M", "B": "N"}
if "--round6" in args:
    args.remove("--round6")
    root = "/tmp/seed6"
    rename = {"A": "K", "B": "L"}
if "--round5" in args:
    args.remove("--round5")
    root = "/tmp/seed5"
    rename = {"A": "I", "B": "J"}
if "--round4" in args:
    args.remove("--round4")
    root = "/tmp/seed4"
    rename = {"A": "G", "B": "H"}
if "--round3" in args:
    args.remove("--round3")
    root = "/tmp/seed3"
    rename = {"A": "E", "B": "F"}
extra = args
for v0 in ("A", "B"):
    v = rename[v0]
    src = "%s/%s/_seed/%s" % (root, pid, v0)
    if not os.path.exists(os.path.join(src, "patch.diff")):
        print(pid, v, "missing")
        continue
    dst = os.path.join(VERIF, "seeded", "%s-%s" % (pid, v))
    os.makedirs(dst, exist_ok=True)
    for f in ("patch.diff", "demo_test.go", "notes.md"):
        if os.path.exists(os.path.join(src, f)):
            shutil.copy(os.path.join(src, f), os.path.join(dst, f))
    p = subprocess.run([sys.executable, os.path.join(VERIF, "lib", "seedtest.py"), dst, pid] + extra, stdout=subprocess.PIPE, stderr=subprocess.STDOUT, text=True)
    try:
        res = json.loads(p.stdout[p.stdout.index("{"):])
    except Exception:
        print(pid, v, "seedtest failed:", p.stdout[-1500:])
        continue
    confirmed = res.get("applies") and res.get("suite_passes_with") and res.get("demo_fails_with") and res.get("demo_passes_without")
    caught = [c for c, r in res["checks"].items() if r["violations"] > 0]
    notes = open(os.path.join(dst, "notes.md")).read() if os.path.exists(os.path.join(dst, "notes.md")) else ""
    meta = {"property": pid, "variant": v, "source": "independent sub-agent given only the property text and a scratch worktree",
            "confirmed": bool(confirmed),
            "confirmation": {k: res.get(k) for k in ("applies", "suite_passes_with", "demo_fails_with", "demo_passes_without")},
            "needs_to_manifest": notes.strip().splitlines()[:12],
            "ran": ["lib/seedtest.py seeded/%s-%s %s  (scratch worktree of /repo HEAD + patch; go build; go test ./...; demo with/without; ./check %s --tier quick)" % (pid, v, pid, pid)],
            "caught_by": caught, "monitors": {c: r["monitors"] for c, r in res["checks"].items()},
            "check_results": {c: {"rc": r["rc"], "violations": r["violations"]} for c, r in res["checks"].items()}}
    json.dump(meta, open(os.path.join(dst, "meta.json"), "w"), indent=1)
    print(pid, v, "confirmed" if confirmed else "NOT CONFIRMED %s" % meta["confirmation"], "caught by", caught or "NOTHING", {c: r["monitors"][:3] for c, r in res["checks"].items()})
